//! C20 monitor: one build of this binary per feature set of anstyle-parse.
//! usage: vfeat <tier> <seed> <shard> <nshards>
use refmodel::gen;
use refmodel::json::{show, J};
use refmodel::rng::{hash64, Rng};
use refmodel::vt::{Ev, Policy, RefVt};

#[derive(Default)]
struct Recorder {
    ev: Vec<Ev>,
}

fn copy_params(p: &anstyle_parse::Params) -> Vec<Vec<u16>> {
    // bounded: a parameter iterator that never ends must not exhaust the monitor's memory (at most 32 values exist, so
    // 200 items already differ from every expectation)
    p.iter().take(200).map(|g| g.to_vec()).collect()
}

impl anstyle_parse::Perform for Recorder {
    fn print(&mut self, c: char) {
        self.ev.push(Ev::Print(c));
    }
    fn execute(&mut self, byte: u8) {
        self.ev.push(Ev::Execute(byte));
    }
    fn hook(&mut self, params: &anstyle_parse::Params, intermediates: &[u8], ignore: bool, action: u8) {
        self.ev.push(Ev::Hook { params: copy_params(params), inter: intermediates.to_vec(), ignore, fin: action });
    }
    fn put(&mut self, byte: u8) {
        self.ev.push(Ev::Put(byte));
    }
    fn unhook(&mut self) {
        self.ev.push(Ev::Unhook);
    }
    fn osc_dispatch(&mut self, params: &[&[u8]], bell_terminated: bool) {
        self.ev.push(Ev::Osc { params: params.iter().map(|p| p.to_vec()).collect(), bell: bell_terminated });
    }
    fn csi_dispatch(&mut self, params: &anstyle_parse::Params, intermediates: &[u8], ignore: bool, action: u8) {
        self.ev.push(Ev::Csi { params: copy_params(params), inter: intermediates.to_vec(), ignore, fin: action });
    }
    fn esc_dispatch(&mut self, intermediates: &[u8], ignore: bool, byte: u8) {
        self.ev.push(Ev::Esc { inter: intermediates.to_vec(), ignore, fin: byte });
    }
}

const CORE: bool = cfg!(feature = "core");
const UTF8: bool = cfg!(feature = "utf8");
const OSC_CAP: usize = 1024;

fn real(data: &[u8]) -> Result<Vec<Ev>, String> {
    std::panic::catch_unwind(|| {
        let mut p = anstyle_parse::Parser::<anstyle_parse::DefaultCharAccumulator>::new();
        let mut r = Recorder::default();
        for &b in data {
            p.advance(&mut r, b);
        }
        r.ev
    })
    .map_err(|e| e.downcast_ref::<String>().cloned().or_else(|| e.downcast_ref::<&str>().map(|s| s.to_string())).unwrap_or_else(|| "panic".into()))
}

/// A clone of the parser taken at any point of the stream continues exactly like the original, in every configuration
/// (every position for short inputs, 12 spread positions for long ones).
fn clone_points(data: &[u8], whole: &[Ev]) -> Option<(String, String)> {
    let n = data.len();
    let step = (n / 12).max(1);
    let r = std::panic::catch_unwind(|| {
        let mut p = anstyle_parse::Parser::<anstyle_parse::DefaultCharAccumulator>::new();
        let mut rec = Recorder::default();
        let mut clones = vec![];
        for (k, &b) in data.iter().enumerate() {
            if k > 0 && (n <= 48 || k % step == step / 2) {
                clones.push((k, rec.ev.len(), p.clone()));
            }
            p.advance(&mut rec, b);
        }
        for (k, mark, mut c) in clones {
            let mut rc = Recorder::default();
            for &b in &data[k..] {
                c.advance(&mut rc, b);
            }
            if rc.ev[..] != rec.ev[mark..] {
                let i = rc.ev.iter().zip(&rec.ev[mark..]).position(|(x, y)| x != y).unwrap_or(rc.ev.len().min(rec.ev.len() - mark));
                return Some(format!("a clone of the parser taken before byte {k} continues differently: event {i}: clone reports {:?}, the original {:?}", rc.ev.get(i), rec.ev.get(mark + i)));
            }
            // the same snapshot restored into a used parser with clone_from
            let mut p2 = anstyle_parse::Parser::<anstyle_parse::DefaultCharAccumulator>::new();
            let mut scratch = Recorder::default();
            let dirty: [&[u8]; 4] = [b"\x1b[1;2;3;4;5;6;7;8;9;10;11;12;13;14;15;16;17;18;19;20;21;22;23;24;25;26;27;28;29;30;31;32;33;34   \x1b]a;b", b"\x1b[1;2;3;4;5;6;7;8;9;10;11;12;13;14;15;16;17;18;19;20;21;22;23;24;25;26;27;28;29;30;31;32;33;34", b"\x1b[1 !\"", b"\x1bP1;2:3$"];
            for &b in dirty[k % 4] {
                p2.advance(&mut scratch, b);
            }
            let mut snap = anstyle_parse::Parser::<anstyle_parse::DefaultCharAccumulator>::new();
            let mut r0 = Recorder::default();
            for &b in &data[..k] {
                snap.advance(&mut r0, b);
            }
            p2.clone_from(&snap);
            let mut r2 = Recorder::default();
            for &b in &data[k..] {
                p2.advance(&mut r2, b);
            }
            if r2.ev[..] != rec.ev[mark..] {
                return Some(format!("a parser restored with clone_from from a snapshot taken before byte {k} continues differently from the original"));
            }
        }
        None
    });
    let _ = whole;
    match r {
        Ok(None) => None,
        Ok(Some(m)) => Some(("c20:clone".into(), m)),
        Err(_) => Some(("c20:panic".into(), "a clone of the parser panicked while continuing the stream".into())),
    }
}

fn reference(data: &[u8]) -> (Vec<Ev>, Vec<usize>) {
    let mut r = RefVt::new(Policy::Consume);
    if CORE {
        r.osc_cap = Some(OSC_CAP);
    }
    r.feed(data);
    (r.ev, r.osc16)
}

fn ev_hash(ev: &[Ev]) -> u64 {
    hash64(format!("{ev:?}").as_bytes())
}

/// (largest number of payload bytes stored by any OSC string, whether a separator arrived while exactly OSC_CAP bytes
/// were stored) according to the uncapped reference
fn osc_fill(data: &[u8]) -> (usize, bool) {
    use refmodel::vt::St;
    let mut r = RefVt::new(Policy::Consume);
    let (mut cur, mut max, mut sep_at_full) = (0usize, 0usize, false);
    for &b in data {
        let was_osc = r.st == St::Osc && !r.mid_char();
        r.step(b);
        r.ev.clear();
        if was_osc && r.st == St::Osc {
            if b == b';' && cur == OSC_CAP {
                sep_at_full = true;
            }
            if b >= 0x20 && b != b';' {
                cur += 1;
                max = max.max(cur);
            }
        } else if r.st == St::Osc && !was_osc {
            cur = 0;
        }
    }
    (max, sep_at_full)
}

pub const SIG_F15: &str = "c20:in-limit:separator-after-exactly-full-buffer";

/// The two rules of the property for one stream: (1) the build behaves like the reference with its documented limit,
/// (2) when every OSC payload fits the fixed buffer, it behaves like the reference without any limit (= like every
/// other configuration).  Returns (signature, message) of the first broken rule.
fn evaluate(data: &[u8]) -> (Vec<Ev>, bool, Option<(String, String)>) {
    let got = match real(data) {
        Ok(g) => g,
        Err(p) => return (vec![], false, Some(("c20:panic".into(), format!("the parser panicked: {p}")))),
    };
    if let Some(bad) = clone_points(data, &got) {
        return (got, false, Some(bad));
    }
    let (want, want_osc16) = reference(data);
    let (fill, sep_at_full) = osc_fill(data);
    let fits = fill <= OSC_CAP;
    let diff = |a: &[Ev], b: &[Ev]| {
        let n = a.iter().zip(b.iter()).position(|(x, y)| x != y).unwrap_or(a.len().min(b.len()));
        format!("event {n}: observed {:?}, expected {:?} (lengths {} / {})", a.get(n), b.get(n), a.len(), b.len())
    };
    if !refmodel::vt::events_agree(&got, &want, &want_osc16) {
        return (got.clone(), fits && !sep_at_full, Some(("c20:events".into(), diff(&got, &want))));
    }
    if fits && CORE {
        let (unlimited, unlimited_osc16) = {
            let mut r = RefVt::new(Policy::Consume);
            r.feed(data);
            (r.ev, r.osc16)
        };
        if !refmodel::vt::events_agree(&got, &unlimited, &unlimited_osc16) {
            let sig = if sep_at_full { SIG_F15 } else { "c20:in-limit-differs" };
            return (got.clone(), fits && !sep_at_full, Some((sig.into(), format!("every OSC payload fits the {OSC_CAP}-byte buffer, yet this build differs from the unlimited configurations: {}", diff(&got, &unlimited)))));
        }
    }
    (got, fits && !sep_at_full, None)
}

fn main() {
    // keep the first few panic messages (a panicking parser would otherwise flood stderr)
    static SHOWN: std::sync::atomic::AtomicUsize = std::sync::atomic::AtomicUsize::new(0);
    let default_hook = std::panic::take_hook();
    std::panic::set_hook(Box::new(move |info| {
        if SHOWN.fetch_add(1, std::sync::atomic::Ordering::Relaxed) < 3 {
            default_hook(info);
        }
    }));
    let args: Vec<String> = std::env::args().collect();
    if args.get(1).map(|s| s.as_str()) == Some("replay") {
        let data = refmodel::json::unhex(args.get(2).map(|s| s.as_str()).unwrap_or("")).expect("hex");
        let (_, _, bad) = evaluate(&data);
        let mut o = J::obj();
        o.set("features", J::s(format!("core={CORE} utf8={UTF8}")));
        match &bad {
            None => {
                o.set("replay", J::s("held"));
            }
            Some((sig, msg)) => {
                o.set("replay", J::s("violated"));
                o.set("sig", J::s(sig));
                o.set("msg", J::s(msg));
            }
        }
        println!("{}", o.to_string());
        std::process::exit(if bad.is_none() { 0 } else { 1 });
    }
    let tier = args.get(1).map(|s| s.as_str()).unwrap_or("quick");
    let seed: u64 = args.get(2).and_then(|s| s.parse().ok()).unwrap_or(1);
    let shard: u64 = args.get(3).and_then(|s| s.parse().ok()).unwrap_or(0);
    let nshards: u64 = args.get(4).and_then(|s| s.parse().ok()).unwrap_or(1);
    let (nstreams, maxlen) = match tier {
        "tiny" => (50u64, 300usize),
        "thorough" => (2_000_000, 4096),
        _ => (30_000, 2048),
    };
    let mut evaluations = 0u64;
    let mut distinct = std::collections::HashSet::new();
    let viols: Vec<J> = vec![];
    let mut nviol = 0u64;
    // hash over the event logs of all streams whose OSC payloads fit the fixed buffer: must be identical across builds
    let mut log_hash_small: u64 = 0;
    let mut n_small = 0u64;
    let mut n_truncated = 0u64;
    let mut samples: Vec<J> = vec![];
    let mut by_sig: std::collections::BTreeMap<String, (u64, J)> = Default::default();
    let mut check = |data: &[u8], origin: &str, evaluations: &mut u64| {
        *evaluations += 1;
        let (got, hashable, bad) = evaluate(data);
        if hashable && data.iter().all(|b| *b < 0x80) {
            log_hash_small = log_hash_small.wrapping_mul(0x100000001b3).wrapping_add(ev_hash(&got));
            n_small += 1;
        } else if CORE {
            n_truncated += 1;
        }
        if let Some((sig, msg)) = bad {
            nviol += 1;
            let e = by_sig.entry(sig.clone()).or_insert_with(|| {
                let mut o = J::obj();
                o.set("sig", J::s(&sig));
                o.set("origin", J::s(origin));
                o.set("input_hex", J::s(refmodel::json::hex(data)));
                o.set("input_shown", J::s(show(&data[..data.len().min(160)])));
                o.set("msg", J::s(msg));
                (0, o)
            });
            e.0 += 1;
        }
    };
    // 1. seeded 7-bit streams
    let mut i = shard;
    while i < nstreams {
        let mut rng = Rng::new(seed, 0xC20_0000_0000 + i);
        let s = gen::gen_stream_7bit(&mut rng, maxlen);
        if s.iter().any(|b| *b == 0x1b) {
            distinct.insert(hash64(&s));
        }
        if i < 2 {
            let mut o = J::obj();
            o.set("origin", J::s("seeded 7-bit stream"));
            o.set("input", J::s(show(&s[..s.len().min(120)])));
            samples.push(o);
        }
        check(&s, "stream", &mut evaluations);
        i += nshards;
    }
    // 2. oversize OSC shapes: payload 1000..=1100 bytes, 0..=20 separators (some of them beyond the 1024-byte cap),
    //    every way of ending the string (BEL, ST, CAN, SUB), followed by text and a CSI
    let mut k = 0u64;
    for len in 1000..=1100usize {
        for seps in 0..=20usize {
            k += 1;
            if k % nshards != shard {
                continue;
            }
            let mut rng = Rng::new(seed, 0xC20_8000_0000 + k);
            let payload: Vec<u8> = (0..len).map(|_| rng.range(0x20, 0x7e) as u8).map(|b| if b == b';' { b'x' } else { b }).collect();
            // separator positions (in payload-byte coordinates): `after` of them behind the cap when the payload is that long
            let after = if len > 1030 { seps % 4 } else { 0 };
            let before = seps - after.min(seps);
            let mut cuts: Vec<usize> = vec![];
            for j in 0..before {
                cuts.push((j * 47 + rng.below(40) as usize) % 1000);
            }
            for j in 0..after.min(seps) {
                cuts.push(1025 + (j * 17 + rng.below(10) as usize) % (len - 1025));
            }
            cuts.sort();
            let mut body = Vec::with_capacity(len + seps);
            let mut ci = 0;
            for (pos, b) in payload.iter().enumerate() {
                while ci < cuts.len() && cuts[ci] == pos {
                    body.push(b';');
                    ci += 1;
                }
                body.push(*b);
            }
            let mut s = b"A\x1b]".to_vec();
            s.extend_from_slice(&body);
            s.extend_from_slice(match (len + seps) % 4 {
                0 => &b"\x07"[..],
                1 => b"\x1b\\",
                2 => b"\x18",
                _ => b"\x1a",
            });
            s.extend_from_slice(b"B\x1b[1;2mC\x07\x1b]0;t\x07D");
            distinct.insert(hash64(&s));
            if len == 1050 && seps == 3 {
                let mut o = J::obj();
                o.set("origin", J::s("oversize OSC shape"));
                o.set("payload_len", J::UInt(len as u64));
                o.set("separators", J::UInt(seps as u64));
                o.set("separators_behind_the_cap", J::UInt(after as u64));
                samples.push(o);
            }
            check(&s, "oversize-osc", &mut evaluations);
        }
    }
    // 2b. fill levels right at the cap with a separator as the last byte, and payloads far above the cap
    let mut kk = 0u64;
    for stored in [1022usize, 1023, 1024, 1025, 1026, 2048, 65535, 65536, 70000] {
        for fields in [0usize, 1, 2, 15, 16, 17] {
            for last_sep in [false, true] {
                kk += 1;
                if kk % nshards != shard {
                    continue;
                }
                let mut body: Vec<u8> = vec![];
                let per = (stored / (fields + 1)).max(1);
                let mut put = 0usize;
                while put < stored {
                    body.push(b'a' + (put % 26) as u8);
                    put += 1;
                    if fields > 0 && put % per == 0 && body.iter().filter(|c| **c == b';').count() < fields {
                        body.push(b';');
                    }
                }
                if last_sep {
                    body.push(b';');
                }
                let mut s = b"x\x1b]".to_vec();
                s.extend_from_slice(&body);
                s.extend_from_slice(if kk % 3 == 0 { &b"\x07"[..] } else if kk % 3 == 1 { b"\x1b\\" } else { b"\x1a" });
                s.extend_from_slice(b"y\x1b]2;second;osc\x07z\x1b[38;5;1mw\x1bP1$rq\x1b\\v");
                distinct.insert(hash64(&s));
                check(&s, "fill-level", &mut evaluations);
            }
        }
    }
    // 3. long OSC strings with random content: payload 900..1200 bytes incl. C0 controls (ignored), DEL, separators
    //    anywhere, any terminator (or none), followed by a short random stream
    let nlong = nstreams / 15 + 20;
    let mut i = shard;
    while i < nlong {
        let mut rng = Rng::new(seed, 0xC20_C000_0000 + i);
        let len = rng.range(900, 1200) as usize;
        let mut s = if rng.chance(1, 2) { b"pre".to_vec() } else { vec![] };
        s.extend_from_slice(b"\x1b]");
        for _ in 0..len {
            let b = match rng.below(40) {
                0 => b';',
                1 => 0x7f,
                2 => rng.below(0x18) as u8,
                3 => *rng.pick(&[0x19u8, 0x1c, 0x1f]),
                _ => rng.range(0x20, 0x7e) as u8,
            };
            s.push(if b == 0x07 { b'.' } else { b });
        }
        match rng.below(6) {
            0 => s.push(0x07),
            1 => s.extend_from_slice(b"\x1b\\"),
            2 => s.push(0x18),
            3 => s.push(0x1a),
            4 => s.extend_from_slice(b"\x1b[31m"),
            _ => {}
        }
        s.extend_from_slice(b"tail\x07");
        let t = gen::gen_stream_7bit(&mut rng, 60);
        s.extend_from_slice(&t);
        distinct.insert(hash64(&s));
        check(&s, "long-osc", &mut evaluations);
        i += nshards;
    }
    // 4. 8-bit payloads: a multi-byte character straddling the cap at every offset (truncation is by bytes, at the limit),
    //    also inside the limit and far above it; excluded from the cross-build hash (the cross-build rule is about 7-bit input)
    let mut k4 = 0u64;
    for lead in [0usize, 500, 1016, 1017, 1018, 1019, 1020, 1021, 1022, 1023, 1024, 1025, 1026, 1030, 3000] {
        for ch in ["\u{e9}", "\u{6f22}", "\u{1f600}", "\u{e9}\u{6f22}"] {
            for (ti, term) in [&b"\x07"[..], b"\x1b\\", b"\x18"].iter().enumerate() {
                k4 += 1;
                if k4 % nshards != shard {
                    continue;
                }
                let mut s = b"A\x1b]52;".to_vec();
                s.extend(std::iter::repeat(b'a').take(lead.saturating_sub(3)));
                for _ in 0..(3 + ti) {
                    s.extend_from_slice(ch.as_bytes());
                }
                s.extend_from_slice(b";tail");
                s.extend_from_slice(term);
                s.extend_from_slice(b"B\x1b[1;2mC\x1b]0;t\x07D");
                distinct.insert(hash64(&s));
                check(&s, "8-bit-osc", &mut evaluations);
            }
        }
    }
    drop(check);
    let mut o = J::obj();
    o.set("features", J::s(format!("core={CORE} utf8={UTF8}")));
    o.set("evaluations", J::UInt(evaluations));
    o.set("distinct_nontrivial", J::UInt(distinct.len() as u64));
    o.set("streams_with_osc_within_cap", J::UInt(n_small));
    o.set("streams_with_truncated_osc", J::UInt(n_truncated));
    o.set("log_hash_small", J::s(format!("{log_hash_small:016x}")));
    o.set("violation_count", J::UInt(nviol));
    let _ = &viols;
    o.set(
        "violations",
        J::Arr(
            by_sig
                .into_iter()
                .map(|(_, (n, mut o))| {
                    o.set("count", J::UInt(n));
                    o
                })
                .collect(),
        ),
    );
    o.set("samples", J::Arr(samples));
    println!("{}", o.to_string());
}
