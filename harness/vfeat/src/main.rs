//! C20 monitor: one build of this binary per feature set of anstyle-parse.
//! usage: vfeat <tier> <seed> <shard> <nshards>
use refmodel::gen;
use refmodel::json::{show, J};
use refmodel::rng::{hash64, Rng};
use refmodel::vt::{Ev, Policy, RefVt};

#[derive(Default)]
struct Recorder {
    ev: Vec<Ev>,
}

fn copy_params(p: &anstyle_parse::Params) -> Vec<Vec<u16>> {
    p.iter().map(|g| g.to_vec()).collect()
}

impl anstyle_parse::Perform for Recorder {
    fn print(&mut self, c: char) {
        self.ev.push(Ev::Print(c));
    }
    fn execute(&mut self, byte: u8) {
        self.ev.push(Ev::Execute(byte));
    }
    fn hook(&mut self, params: &anstyle_parse::Params, intermediates: &[u8], ignore: bool, action: u8) {
        self.ev.push(Ev::Hook { params: copy_params(params), inter: intermediates.to_vec(), ignore, fin: action });
    }
    fn put(&mut self, byte: u8) {
        self.ev.push(Ev::Put(byte));
    }
    fn unhook(&mut self) {
        self.ev.push(Ev::Unhook);
    }
    fn osc_dispatch(&mut self, params: &[&[u8]], bell_terminated: bool) {
        self.ev.push(Ev::Osc { params: params.iter().map(|p| p.to_vec()).collect(), bell: bell_terminated });
    }
    fn csi_dispatch(&mut self, params: &anstyle_parse::Params, intermediates: &[u8], ignore: bool, action: u8) {
        self.ev.push(Ev::Csi { params: copy_params(params), inter: intermediates.to_vec(), ignore, fin: action });
    }
    fn esc_dispatch(&mut self, intermediates: &[u8], ignore: bool, byte: u8) {
        self.ev.push(Ev::Esc { inter: intermediates.to_vec(), ignore, fin: byte });
    }
}

const CORE: bool = cfg!(feature = "core");
const UTF8: bool = cfg!(feature = "utf8");
const OSC_CAP: usize = 1024;

fn real(data: &[u8]) -> Vec<Ev> {
    let mut p = anstyle_parse::Parser::<anstyle_parse::DefaultCharAccumulator>::new();
    let mut r = Recorder::default();
    for &b in data {
        p.advance(&mut r, b);
    }
    r.ev
}

fn reference(data: &[u8]) -> Vec<Ev> {
    let mut r = RefVt::new(Policy::Consume);
    if CORE {
        r.osc_cap = Some(OSC_CAP);
    }
    r.feed(data);
    r.ev
}

fn ev_hash(ev: &[Ev]) -> u64 {
    hash64(format!("{ev:?}").as_bytes())
}

fn max_osc_payload(data: &[u8]) -> usize {
    // longest run of OSC payload bytes (bytes other than ';') according to the uncapped reference
    let ev = {
        let mut r = RefVt::new(Policy::Consume);
        r.feed(data);
        r.ev
    };
    ev.iter().map(|e| if let Ev::Osc { params, .. } = e { params.iter().map(|p| p.len()).sum() } else { 0 }).max().unwrap_or(0)
}

fn main() {
    let args: Vec<String> = std::env::args().collect();
    if args.get(1).map(|s| s.as_str()) == Some("replay") {
        let data = refmodel::json::unhex(args.get(2).map(|s| s.as_str()).unwrap_or("")).expect("hex");
        let got = real(&data);
        let want = reference(&data);
        let mut o = J::obj();
        o.set("features", J::s(format!("core={CORE} utf8={UTF8}")));
        if got == want {
            o.set("replay", J::s("held"));
        } else {
            let n = got.iter().zip(want.iter()).position(|(a, b)| a != b).unwrap_or(got.len().min(want.len()));
            o.set("replay", J::s("violated"));
            o.set("sig", J::s("c20:events"));
            o.set("msg", J::s(format!("event {n}: observed {:?}, expected {:?}", got.get(n), want.get(n))));
        }
        println!("{}", o.to_string());
        std::process::exit(if got == want { 0 } else { 1 });
    }
    let tier = args.get(1).map(|s| s.as_str()).unwrap_or("quick");
    let seed: u64 = args.get(2).and_then(|s| s.parse().ok()).unwrap_or(1);
    let shard: u64 = args.get(3).and_then(|s| s.parse().ok()).unwrap_or(0);
    let nshards: u64 = args.get(4).and_then(|s| s.parse().ok()).unwrap_or(1);
    let (nstreams, maxlen) = match tier {
        "tiny" => (50u64, 300usize),
        "thorough" => (2_000_000, 4096),
        _ => (30_000, 2048),
    };
    let mut evaluations = 0u64;
    let mut distinct = std::collections::HashSet::new();
    let mut viols: Vec<J> = vec![];
    let mut nviol = 0u64;
    // hash over the event logs of all streams whose OSC payloads fit the fixed buffer: must be identical across builds
    let mut log_hash_small: u64 = 0;
    let mut n_small = 0u64;
    let mut n_truncated = 0u64;
    let mut samples: Vec<J> = vec![];
    let mut check = |data: &[u8], origin: &str, evaluations: &mut u64| {
        *evaluations += 1;
        let got = real(data);
        let want = reference(data);
        let fits = max_osc_payload(data) <= OSC_CAP;
        if fits {
            log_hash_small = log_hash_small.wrapping_mul(0x100000001b3).wrapping_add(ev_hash(&got));
            n_small += 1;
        } else if CORE {
            n_truncated += 1;
        }
        if got != want {
            nviol += 1;
            if viols.len() < 5 {
                let n = got.iter().zip(want.iter()).position(|(a, b)| a != b).unwrap_or(got.len().min(want.len()));
                let mut o = J::obj();
                o.set("origin", J::s(origin));
                o.set("input_hex", J::s(refmodel::json::hex(data)));
                o.set("input_shown", J::s(show(&data[..data.len().min(160)])));
                o.set("msg", J::s(format!("event {n}: observed {:?}, expected {:?} (lengths {} / {})", got.get(n), want.get(n), got.len(), want.len())));
                viols.push(o);
            }
        }
    };
    // 1. seeded 7-bit streams
    let mut i = shard;
    while i < nstreams {
        let mut rng = Rng::new(seed, 0xC20_0000_0000 + i);
        let s = gen::gen_stream_7bit(&mut rng, maxlen);
        if s.iter().any(|b| *b == 0x1b) {
            distinct.insert(hash64(&s));
        }
        if i < 2 {
            let mut o = J::obj();
            o.set("origin", J::s("seeded 7-bit stream"));
            o.set("input", J::s(show(&s[..s.len().min(120)])));
            samples.push(o);
        }
        check(&s, "stream", &mut evaluations);
        i += nshards;
    }
    // 2. oversize OSC shapes: payload 1000..=1100 bytes, 0..=20 separators (some of them beyond the 1024-byte cap),
    //    every way of ending the string (BEL, ST, CAN, SUB), followed by text and a CSI
    let mut k = 0u64;
    for len in 1000..=1100usize {
        for seps in 0..=20usize {
            k += 1;
            if k % nshards != shard {
                continue;
            }
            let mut rng = Rng::new(seed, 0xC20_8000_0000 + k);
            let payload: Vec<u8> = (0..len).map(|_| rng.range(0x20, 0x7e) as u8).map(|b| if b == b';' { b'x' } else { b }).collect();
            // separator positions (in payload-byte coordinates): `after` of them behind the cap when the payload is that long
            let after = if len > 1030 { seps % 4 } else { 0 };
            let before = seps - after.min(seps);
            let mut cuts: Vec<usize> = vec![];
            for j in 0..before {
                cuts.push((j * 47 + rng.below(40) as usize) % 1000);
            }
            for j in 0..after.min(seps) {
                cuts.push(1025 + (j * 17 + rng.below(10) as usize) % (len - 1025));
            }
            cuts.sort();
            let mut body = Vec::with_capacity(len + seps);
            let mut ci = 0;
            for (pos, b) in payload.iter().enumerate() {
                while ci < cuts.len() && cuts[ci] == pos {
                    body.push(b';');
                    ci += 1;
                }
                body.push(*b);
            }
            let mut s = b"A\x1b]".to_vec();
            s.extend_from_slice(&body);
            s.extend_from_slice(match (len + seps) % 4 {
                0 => &b"\x07"[..],
                1 => b"\x1b\\",
                2 => b"\x18",
                _ => b"\x1a",
            });
            s.extend_from_slice(b"B\x1b[1;2mC\x07\x1b]0;t\x07D");
            distinct.insert(hash64(&s));
            if len == 1050 && seps == 3 {
                let mut o = J::obj();
                o.set("origin", J::s("oversize OSC shape"));
                o.set("payload_len", J::UInt(len as u64));
                o.set("separators", J::UInt(seps as u64));
                o.set("separators_behind_the_cap", J::UInt(after as u64));
                samples.push(o);
            }
            check(&s, "oversize-osc", &mut evaluations);
        }
    }
    // 3. long OSC strings with random content: payload 900..1200 bytes incl. C0 controls (ignored), DEL, separators
    //    anywhere, any terminator (or none), followed by a short random stream
    let nlong = nstreams / 15 + 20;
    let mut i = shard;
    while i < nlong {
        let mut rng = Rng::new(seed, 0xC20_C000_0000 + i);
        let len = rng.range(900, 1200) as usize;
        let mut s = if rng.chance(1, 2) { b"pre".to_vec() } else { vec![] };
        s.extend_from_slice(b"\x1b]");
        for _ in 0..len {
            let b = match rng.below(40) {
                0 => b';',
                1 => 0x7f,
                2 => rng.below(0x18) as u8,
                3 => *rng.pick(&[0x19u8, 0x1c, 0x1f]),
                _ => rng.range(0x20, 0x7e) as u8,
            };
            s.push(if b == 0x07 { b'.' } else { b });
        }
        match rng.below(6) {
            0 => s.push(0x07),
            1 => s.extend_from_slice(b"\x1b\\"),
            2 => s.push(0x18),
            3 => s.push(0x1a),
            4 => s.extend_from_slice(b"\x1b[31m"),
            _ => {}
        }
        s.extend_from_slice(b"tail\x07");
        let t = gen::gen_stream_7bit(&mut rng, 60);
        s.extend_from_slice(&t);
        distinct.insert(hash64(&s));
        check(&s, "long-osc", &mut evaluations);
        i += nshards;
    }
    drop(check);
    let mut o = J::obj();
    o.set("features", J::s(format!("core={CORE} utf8={UTF8}")));
    o.set("evaluations", J::UInt(evaluations));
    o.set("distinct_nontrivial", J::UInt(distinct.len() as u64));
    o.set("streams_with_osc_within_cap", J::UInt(n_small));
    o.set("streams_with_truncated_osc", J::UInt(n_truncated));
    o.set("log_hash_small", J::s(format!("{log_hash_small:016x}")));
    o.set("violation_count", J::UInt(nviol));
    o.set("violations", J::Arr(viols));
    o.set("samples", J::Arr(samples));
    println!("{}", o.to_string());
}
