fn main() {
    let checks = vcore::lean_checks();
    std::process::exit(vcore::cli_main(checks));
}
