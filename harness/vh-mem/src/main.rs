//! Lean monitor binary (no third-party styling crates): used by the C04 lanes — debug assertions + overflow checks,
//! Miri, AddressSanitizer, valgrind.
fn main() {
    let checks = vcore::lean_checks();
    std::process::exit(vcore::cli_main(checks));
}
