//! C08 under the non-default feature sets of anstream: `AutoStream::new(writer, choice)` strips for Never (and for Auto
//! when the `auto` feature is off) and forwards every byte for AlwaysAnsi / Always, whatever the features.
//!
//! usage: vautofeat <tier> <seed>
use anstream::{AutoStream, ColorChoice};
use refmodel::gen::{self, Chunker};
use refmodel::json::{hex, show, J};
use refmodel::rng::{hash64, Rng};
use refmodel::vt::{self, Policy};
use std::io::Write;

const AUTO: bool = cfg!(feature = "auto");
const WINCON: bool = cfg!(feature = "wincon");

fn drive(choice: ColorChoice, data: &[u8], cuts: &[usize], rng: &mut Rng) -> Result<Vec<u8>, String> {
    let chunks = gen::split_at_cuts(data, cuts);
    let run = |s: &mut dyn Write, rng: &mut Rng| -> std::io::Result<()> {
        for c in &chunks {
            match rng.below(4) {
                0 => s.write_all(c)?,
                1 => {
                    let mut rest: &[u8] = c;
                    while !rest.is_empty() {
                        let n = s.write(rest)?;
                        if n == 0 {
                            return Err(std::io::ErrorKind::WriteZero.into());
                        }
                        rest = &rest[n..];
                    }
                }
                2 => match std::str::from_utf8(c) {
                    Ok(t) => write!(s, "{t}")?,
                    Err(_) => s.write_all(c)?,
                },
                _ => {
                    s.write_all(c)?;
                    s.flush()?;
                }
            }
        }
        s.flush()
    };
    let mut s = AutoStream::new(Vec::<u8>::new(), choice);
    run(&mut s, rng).map_err(|e| e.to_string())?;
    Ok(s.into_inner())
}

fn main() {
    let args: Vec<String> = std::env::args().collect();
    let tier = args.get(1).map(|s| s.as_str()).unwrap_or("quick");
    let seed: u64 = args.get(2).and_then(|s| s.parse().ok()).unwrap_or(1);
    let n = match tier {
        "tiny" => 50u64,
        "thorough" => 400_000,
        _ => 20_000,
    };
    let mut evaluations = 0u64;
    let mut distinct = std::collections::HashSet::new();
    let mut by_sig: std::collections::BTreeMap<String, (u64, J)> = Default::default();
    let mut per_choice = [0u64; 4];
    for i in 0..n {
        let mut rng = Rng::new(seed, 0xC08_F000_0000 + i);
        let data = match i % 4 {
            0 => gen::gen_stream(&mut rng, 600, true),
            1 => gen::gen_sgr_text(&mut rng, gen::SgrOpts::default(), 20, &["\u{e9}", "\u{6f22}", "\x7f", "\t"]),
            2 => gen::gen_long_stream(&mut rng, 8192, true),
            _ => {
                // text whose only special bytes are DEL / C0 controls
                let mut d = gen::gen_sgr_text(&mut rng, gen::SgrOpts::default(), 6, &["\x7f", "\x7f\x7f", "\x08"]);
                d.retain(|b| *b != 0x1b);
                d
            }
        };
        if std::str::from_utf8(&data).is_err() {
            continue;
        }
        let chunker = *rng.pick(&[Chunker::Whole, Chunker::Single, Chunker::Random(7), Chunker::Random(50), Chunker::Fixed(3)]);
        let cuts = gen::chunk_cuts(&mut rng, data.len(), chunker);
        let stripped = vt::visible(&data, Policy::Consume);
        for (ci, choice) in [ColorChoice::Never, ColorChoice::AlwaysAnsi, ColorChoice::Always, ColorChoice::Auto].into_iter().enumerate() {
            if choice == ColorChoice::Auto && AUTO {
                continue; // decided from the environment: C09's subject
            }
            evaluations += 1;
            per_choice[ci] += 1;
            distinct.insert(hash64(&[&data[..], &[ci as u8]].concat()));
            let want: &[u8] = match choice {
                ColorChoice::Never | ColorChoice::Auto => &stripped,
                _ => &data,
            };
            let mut r2 = Rng::new(seed, 0xC08_F800_0000 + i);
            let got = drive(choice, &data, &cuts, &mut r2);
            let bad = match &got {
                Err(e) => Some(("c08:features:error".to_string(), format!("a write into a Vec failed: {e}"))),
                Ok(g) if g != want => Some((
                    format!("c08:features:{}", if matches!(choice, ColorChoice::Never | ColorChoice::Auto) { "never-not-stripped" } else { "always-not-forwarded" }),
                    format!("AutoStream::new(Vec, {choice:?}) delivered {:?}, expected {:?}", show(&g[..g.len().min(120)]), show(&want[..want.len().min(120)])),
                )),
                _ => None,
            };
            if let Some((sig, msg)) = bad {
                let e = by_sig.entry(sig.clone()).or_insert_with(|| {
                    let mut o = J::obj();
                    o.set("sig", J::s(&sig));
                    o.set("msg", J::s(format!("[features auto={AUTO} wincon={WINCON}] {msg}")));
                    o.set("input_hex", J::s(hex(&data)));
                    (0, o)
                });
                e.0 += 1;
            }
        }
    }
    let mut o = J::obj();
    o.set("features", J::s(format!("auto={AUTO} wincon={WINCON}")));
    o.set("evaluations", J::UInt(evaluations));
    o.set("distinct_nontrivial", J::UInt(distinct.len() as u64));
    o.set("streams_per_choice_never_alwaysansi_always_auto", J::Arr(per_choice.iter().map(|c| J::UInt(*c)).collect()));
    let mut nv = 0u64;
    let mut vs = vec![];
    for (_, (c, mut v)) in by_sig {
        nv += c;
        v.set("count", J::UInt(c));
        vs.push(v);
    }
    o.set("violation_count", J::UInt(nv));
    o.set("violations", J::Arr(vs));
    println!("{}", o.to_string());
}
