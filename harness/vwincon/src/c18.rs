//! C18 — the legacy-console stream hands over each text run once with 16-colour fg/bg.
use crate::wincon::WinconStream;
use refmodel::gen::{self, Chunker, SgrOpts};
use refmodel::json::{show, J};
use refmodel::rng::{hash64, Rng};
use refmodel::sgr::{Col, RefSgr, UlMode};
use refmodel::vt::{self, Ev, Policy, RefVt};
use std::io::{self, ErrorKind, Write};
use vcore::adapt::ansi_index;
use vcore::c06::{Step, STEPS};
use vcore::{par, Case, Cfg, Stats, Tier, Viol};

#[derive(Debug, Clone)]
pub struct ConsoleCall {
    pub fg: Option<u8>,
    pub bg: Option<u8>,
    pub data: Vec<u8>,
    pub step: Step,
    pub accepted: usize,
}

#[derive(Debug, Default)]
pub struct ConsoleState {
    pub script: Vec<Step>,
    pub pos: usize,
    pub calls: Vec<ConsoleCall>,
    pub raw_writes: usize,
    pub flushes: usize,
}

/// Recording (and optionally misbehaving) console writer; the monitor keeps a second handle to the shared state.
#[derive(Debug, Default, Clone)]
pub struct Console(pub std::rc::Rc<std::cell::RefCell<ConsoleState>>);

impl anstyle_wincon::WinconStream for Console {
    fn write_colored(&mut self, fg: Option<anstyle::AnsiColor>, bg: Option<anstyle::AnsiColor>, data: &[u8]) -> io::Result<usize> {
        let mut me = self.0.borrow_mut();
        let me = &mut *me;
        let step = me.script.get(me.pos).copied().unwrap_or(Step::All);
        me.pos += 1;
        let r = match step {
            Step::Accept(k) => Ok((k as usize).min(data.len())),
            Step::All => Ok(data.len()),
            Step::Interrupted => Err(io::Error::new(ErrorKind::Interrupted, "injected")),
            Step::WouldBlock => Err(io::Error::new(ErrorKind::WouldBlock, "injected")),
            Step::Other => Err(io::Error::new(ErrorKind::Other, "injected")),
        };
        let n = *r.as_ref().unwrap_or(&0);
        me.calls.push(ConsoleCall { fg: fg.map(ansi_index), bg: bg.map(ansi_index), data: data.to_vec(), step, accepted: n });
        r
    }
}

/// Plain `io::Write` on the console is only ever used for `flush`; a raw write would bypass the colour calls.
impl Write for Console {
    fn write(&mut self, buf: &[u8]) -> io::Result<usize> {
        self.0.borrow_mut().raw_writes += 1;
        Ok(buf.len())
    }
    fn flush(&mut self) -> io::Result<()> {
        self.0.borrow_mut().flushes += 1;
        Ok(())
    }
}

type Cell = (u8, Option<u8>, Option<u8>);

fn cap(c: Option<Col>) -> Option<u8> {
    match c {
        Some(Col::P16(n)) => Some(n),
        Some(Col::Idx(n)) if n < 16 => Some(n),
        _ => None,
    }
}

/// Incremental reference: bytes of visible text with the capped colours in effect.
#[derive(Clone)]
pub struct RefRuns {
    vt: RefVt,
    sgr: RefSgr,
}

impl RefRuns {
    pub fn new() -> Self {
        RefRuns { vt: RefVt::new(Policy::Consume), sgr: RefSgr::new(UlMode::Select) }
    }
    pub fn feed(&mut self, chunk: &[u8], out: &mut Vec<Cell>) {
        let mut buf = [0u8; 4];
        for &b in chunk {
            self.vt.step(b);
            for e in std::mem::take(&mut self.vt.ev) {
                match e {
                    Ev::Print(c) => {
                        for x in c.encode_utf8(&mut buf).as_bytes() {
                            out.push((*x, cap(self.sgr.s.fg), cap(self.sgr.s.bg)));
                        }
                    }
                    Ev::Execute(x) if vt::is_ws_control(x) => out.push((x, cap(self.sgr.s.fg), cap(self.sgr.s.bg))),
                    e => {
                        self.sgr.on_event(&e);
                    }
                }
            }
        }
    }
}

#[derive(Clone, Copy, Debug, PartialEq, Eq)]
pub enum Api {
    Write,
    WriteAll,
    WriteFmt,
    WriteVectored,
    /// `write!(stream, "<literal>")` (`Arguments::as_str()` is `Some`): the chunk must be one of LITERALS, otherwise WriteFmt
    WriteFmtLiteral,
    /// one `write!` with a short fragment, a large one and the rest
    WriteFmtBig,
    /// one `write!` whose first and last characters are `char` arguments (they reach the stream through `write_char`)
    WriteFmtChars,
    /// the call shape changes from chunk to chunk (MIX)
    Mixed,
}
pub const MIX: [Api; 6] = [Api::Write, Api::WriteFmt, Api::WriteAll, Api::Write, Api::WriteFmtChars, Api::WriteVectored];
pub const APIS: [Api; 4] = [Api::Write, Api::WriteAll, Api::WriteFmt, Api::WriteVectored];
pub const ALL_APIS: [Api; 8] = [Api::Write, Api::WriteAll, Api::WriteFmt, Api::WriteVectored, Api::WriteFmtLiteral, Api::WriteFmtBig, Api::WriteFmtChars, Api::Mixed];

pub const LITERALS: [&str; 9] = [
    "status: \x1b[32mall good\x1b[0m (42 items)\n",
    "plain literal text",
    "\x1b[1;31merror\x1b[0m: \u{e9}\u{6f22}\u{1f600} \x1b[4munderlined",
    "x",
    "\x1b[38;5;208morange\x1b[m \x1b]0;title\x07done\r\n",
    // literals that only make sense as the continuation of an earlier call
    "m",
    ";31mb",
    "window title",
    "1mred",
];

fn write_literal(w: &mut dyn Write, idx: usize) -> io::Result<()> {
    match idx {
        0 => write!(w, "status: \x1b[32mall good\x1b[0m (42 items)\n"),
        1 => write!(w, "plain literal text"),
        2 => write!(w, "\x1b[1;31merror\x1b[0m: \u{e9}\u{6f22}\u{1f600} \x1b[4munderlined"),
        3 => write!(w, "x"),
        5 => write!(w, "m"),
        6 => write!(w, ";31mb"),
        7 => write!(w, "window title"),
        8 => write!(w, "1mred"),
        _ => write!(w, "\x1b[38;5;208morange\x1b[m \x1b]0;title\x07done\r\n"),
    }
}

fn floor_boundary(s: &str, mut i: usize) -> usize {
    i = i.min(s.len());
    while !s.is_char_boundary(i) {
        i -= 1;
    }
    i
}

pub struct Run<'a> {
    pub input: &'a [u8],
    pub cuts: &'a [usize],
    pub script: &'a [Step],
    pub api: Api,
    /// compare colours too (only for inputs from the well-formed SGR grammar)
    pub styles: bool,
}

pub const SIG_F14: &str = "c18:write:short-console-write-reported-as-consumed";
pub const SIG_F16: &str = "c18:write:retry-after-interrupted";

fn accepted_cells(calls: &[ConsoleCall]) -> Vec<Cell> {
    let mut v = vec![];
    for c in calls {
        for b in &c.data[..c.accepted] {
            v.push((*b, c.fg, c.bg));
        }
    }
    v
}

fn cells_eq(a: &[Cell], b: &[Cell], styles: bool) -> bool {
    if styles {
        a == b
    } else {
        a.len() == b.len() && a.iter().zip(b).all(|(x, y)| x.0 == y.0)
    }
}

fn show_cells(c: &[Cell]) -> String {
    let bytes: Vec<u8> = c.iter().map(|x| x.0).collect();
    let mut s = show(&bytes[..bytes.len().min(60)]);
    if let Some(f) = c.first() {
        s.push_str(&format!(" (first cell fg={:?} bg={:?})", f.1, f.2));
    }
    s
}

fn first_cell_diff(a: &[Cell], b: &[Cell]) -> String {
    for (i, (x, y)) in a.iter().zip(b.iter()).enumerate() {
        if x != y {
            return format!("byte {i}: console got {:#04x} fg={:?} bg={:?}, expected {:#04x} fg={:?} bg={:?}", x.0, x.1, x.2, y.0, y.1, y.2);
        }
    }
    format!("lengths differ: console got {} bytes, expected {}", a.len(), b.len())
}

pub fn run_history(run: &Run<'_>, mut st: Option<&mut Stats>) -> Result<(), (String, String)> {
    let console = Console::default();
    console.0.borrow_mut().script = run.script.to_vec();
    let mut stream = WinconStream::new(console.clone());
    let mut refs = RefRuns::new();
    let mut expected: Vec<Cell> = vec![];
    let tag = format!("{:?}", run.api);
    let chunks = gen::split_at_cuts(run.input, run.cuts);
    let mut aborted = false;
    let mut seen_calls = 0usize;
    let mut history_retries = 0u32;
    let mut queue: std::collections::VecDeque<&[u8]> = chunks.into_iter().collect();
    let mut chunk_no = 0usize;
    'chunks: while let Some(chunk) = queue.pop_front() {
        // (a mixed history rotates the call shape from chunk to chunk)
        let api = match run.api {
            Api::Mixed => MIX[(chunk_no + run.input.len()) % MIX.len()],
            a => a,
        };
        chunk_no += 1;
        let mut want = vec![];
        let mut trial = refs.clone();
        trial.feed(chunk, &mut want);
        // cells handed over by attempts of this chunk that ended in Interrupted and were retried by the caller
        let mut carried: Vec<Cell> = vec![];
        // (once a failed `write` has been retried in this history, F16 applies: the failed attempt left the parser
        // state advanced, which can also surface in a later call, so `retries` is not reset between chunks)
        let mut retries = history_retries;
        let mut attempts = 0u32;
        loop {
        let r: Result<usize, io::Error> = match api {
            Api::Write => stream.write(chunk),
            Api::WriteVectored => {
                let (m1, m2) = (chunk.len() / 3, 2 * chunk.len() / 3);
                let bufs = [io::IoSlice::new(&[]), io::IoSlice::new(&chunk[..m1]), io::IoSlice::new(&chunk[m1..m2]), io::IoSlice::new(&[]), io::IoSlice::new(&chunk[m2..])];
                stream.write_vectored(&bufs)
            }
            Api::WriteAll => stream.write_all(chunk).map(|_| chunk.len()),
            Api::WriteFmtLiteral if LITERALS.iter().any(|l| l.as_bytes() == chunk) => {
                let k = LITERALS.iter().position(|l| l.as_bytes() == chunk).unwrap();
                write_literal(&mut stream, k).map(|_| chunk.len())
            }
            Api::WriteFmtBig if std::str::from_utf8(chunk).is_ok() => {
                let s = std::str::from_utf8(chunk).unwrap();
                let a = floor_boundary(s, (s.len() / 16).min(5));
                let b = floor_boundary(s, s.len() - (s.len() / 16).min(7));
                write!(stream, "{}{}{}", &s[..a], &s[a..b], &s[b..]).map(|_| chunk.len())
            }
            Api::WriteFmtChars if std::str::from_utf8(chunk).map_or(false, |s| s.chars().count() >= 2) => {
                let s = std::str::from_utf8(chunk).unwrap();
                let first = s.chars().next().unwrap();
                let last = s.chars().last().unwrap();
                let mid = &s[first.len_utf8()..s.len() - last.len_utf8()];
                write!(stream, "{first}{mid}{last}").map(|_| chunk.len())
            }
            Api::Mixed => unreachable!("resolved per chunk"),
            Api::WriteFmt | Api::WriteFmtLiteral | Api::WriteFmtBig | Api::WriteFmtChars => match std::str::from_utf8(chunk) {
                Ok(s) => {
                    let mut mid = s.len() / 2;
                    while !s.is_char_boundary(mid) {
                        mid -= 1;
                    }
                    write!(stream, "{}{}", &s[..mid], &s[mid..]).map(|_| chunk.len())
                }
                Err(_) => stream.write_all(chunk).map(|_| chunk.len()),
            },
        };
        let calls: Vec<ConsoleCall> = console.0.borrow().calls[seen_calls..].to_vec();
        seen_calls += calls.len();
        for c in &calls {
            if let Some(p) = c.data.iter().position(|b| *b == 0x1b || (*b < 0x20 && !vt::is_ws_control(*b))) {
                return Err((format!("c18:{tag}:control-byte-as-text"), format!("console was handed {:?} (byte {p} is a control byte)", show(&c.data))));
            }
        }
        let got = accepted_cells(&calls);
        let short = calls.iter().any(|c| c.accepted < c.data.len() && !c.step.is_fault());
        let fatal: Option<ErrorKind> = calls.iter().find_map(|c| match c.step {
            Step::WouldBlock => Some(ErrorKind::WouldBlock),
            Step::Other => Some(ErrorKind::Other),
            Step::Interrupted if matches!(api, Api::Write | Api::WriteVectored) => Some(ErrorKind::Interrupted),
            Step::Accept(0) if !c.data.is_empty() && matches!(api, Api::WriteAll | Api::WriteFmt | Api::WriteFmtLiteral | Api::WriteFmtBig | Api::WriteFmtChars) => Some(ErrorKind::WriteZero),
            _ => None,
        });
        match r {
            Ok(n) => {
                if n > chunk.len() {
                    return Err((format!("c18:{tag}:count-too-large"), format!("returned {n} for a buffer of {} bytes", chunk.len())));
                }
                if let Some(k) = fatal {
                    return Err((format!("c18:{tag}:error-turned-into-success"), format!("the console writer failed with {k:?} but the call returned Ok({n})")));
                }
                // expected text for the consumed part
                let mut want_n = vec![];
                let mut trial_n = refs.clone();
                trial_n.feed(&chunk[..n], &mut want_n);
                if retries > 0 {
                    // the standard protocol: a write that failed with Interrupted is retried with the same buffer, so
                    // everything the failed attempts handed over counts
                    let mut all = carried.clone();
                    all.extend_from_slice(&got);
                    if !cells_eq(&all, &want_n, run.styles) {
                        return Err((
                            SIG_F16.into(),
                            format!("earlier in this history a write failed with Interrupted and was retried with the same buffer ({retries} retries so far); over all attempts of this call the console accepted {} but the buffer denotes {}: {}", show_cells(&all), show_cells(&want_n), first_cell_diff(&all, &want_n)),
                        ));
                    }
                } else if !cells_eq(&got, &want_n, run.styles) {
                    if matches!(api, Api::Write | Api::WriteVectored) && short && want_n.len() > got.len() && cells_eq(&got, &want_n[..got.len()], run.styles) {
                        // the listed finding F14.  The history stops here: after this call the stream has dropped the rest of
                        // the buffer without parsing it, so nothing that follows can be predicted without mirroring the defect.
                        return Err((
                            SIG_F14.into(),
                            format!("write returned Ok({n}) = everything it processed, but a console call accepted a short count and only {} of {} text bytes were handed over", got.len(), want_n.len()),
                        ));
                    }
                    return Err((
                        format!("c18:{tag}:runs"),
                        format!("returned Ok({n}); console accepted {} but the consumed bytes denote {}: {}", show_cells(&got), show_cells(&want_n), first_cell_diff(&got, &want_n)),
                    ));
                }
                if n < chunk.len() {
                    // a short count from the stream itself (write_vectored consumes its first non-empty slice): the
                    // caller resubmits the rest
                    refs = trial_n;
                    expected.extend_from_slice(&want_n);
                    if n == 0 {
                        aborted = true;
                        break 'chunks;
                    }
                    queue.push_front(&chunk[n..]);
                    continue 'chunks;
                }
                refs = trial;
                expected.extend_from_slice(&want);
                break;
            }
            Err(e) => {
                match fatal {
                    Some(k) if k == e.kind() => {}
                    other => return Err((format!("c18:{tag}:error-kind"), format!("returned Err({:?}) but the console writer's fault was {:?}", e.kind(), other))),
                }
                if retries > 0 {
                    let mut all = carried.clone();
                    all.extend_from_slice(&got);
                    if all.len() > want.len() || !cells_eq(&all, &want[..all.len()], run.styles) {
                        return Err((
                            SIG_F16.into(),
                            format!("earlier in this history a write failed with Interrupted and was retried with the same buffer ({retries} retries so far); over all attempts of this call the console accepted {}, not a prefix of {}", show_cells(&all), show_cells(&want)),
                        ));
                    }
                } else if got.len() > want.len() || !cells_eq(&got, &want[..got.len()], run.styles) {
                    return Err((format!("c18:{tag}:delivery-not-prefix"), format!("failed call handed over {}, not a prefix of {}", show_cells(&got), show_cells(&want))));
                }
                if e.kind() == ErrorKind::Interrupted && matches!(api, Api::Write | Api::WriteVectored) && attempts < 3 {
                    carried.extend_from_slice(&got);
                    attempts += 1;
                    retries += 1;
                    history_retries += 1;
                    if let Some(st) = st.as_deref_mut() {
                        st.count("writes_retried_after_interrupted");
                    }
                    continue;
                }
                expected.extend_from_slice(&carried);
                expected.extend_from_slice(&got);
                aborted = true;
                // after a failed all-or-nothing call the stream is still usable: a following formatted write (with a
                // run-time argument, starting with a reset so that the style is known) hands over its own text only
                // (only when the bytes sent so far end on a character boundary: otherwise the reset would follow a cut-off
                // character, which is outside the domain of valid UTF-8 texts)
                let end = chunk.as_ptr() as usize + chunk.len() - run.input.as_ptr() as usize;
                let clean = end <= run.input.len() && std::str::from_utf8(&run.input[..end]).is_ok();
                if clean && matches!(api, Api::WriteAll | Api::WriteFmt | Api::WriteFmtBig | Api::WriteFmtChars | Api::WriteFmtLiteral) && retries == 0 {
                    console.0.borrow_mut().script.clear();
                    let follow = 2 + (chunk.len() % 7);
                    let r2 = write!(stream, "{}next:{}", "\x1b[0m", follow);
                    let calls2: Vec<ConsoleCall> = console.0.borrow().calls[seen_calls..].to_vec();
                    seen_calls += calls2.len();
                    let got2 = accepted_cells(&calls2);
                    let want2: Vec<Cell> = format!("next:{follow}").bytes().map(|b| (b, None, None)).collect();
                    // the follow-up hands over its own text, possibly preceded by text of the failed call that had not
                    // been handed over yet (an implementation may hold a run back until it knows where it ends): that
                    // text continues exactly where the failed call stopped, in its own colours, and nothing is repeated
                    let mut want_chunk = vec![];
                    let mut trial = refs.clone();
                    trial.feed(chunk, &mut want_chunk);
                    let delivered = carried.len() + got.len();
                    let extra = got2.len().saturating_sub(want2.len());
                    let own_ok = got2.len() >= want2.len() && got2[extra..] == want2[..];
                    let extra_ok = delivered + extra <= want_chunk.len() && cells_eq(&got2[..extra], &want_chunk[delivered..delivered + extra], run.styles);
                    if r2.is_err() || !own_ok || !extra_ok {
                        return Err((
                            format!("c18:{tag}:after-error"),
                            format!("after the failed call a formatted write of \"ESC[0mnext:{follow}\" returned {:?} and handed over {}, expected {}", r2.map_err(|e| e.kind()), show_cells(&got2), show_cells(&want2)),
                        ));
                    }
                    expected.extend_from_slice(&got2);
                    if let Some(st) = st.as_deref_mut() {
                        st.count("formatted_writes_after_a_failed_call");
                    }
                }
                break 'chunks;
            }
        }
        }
    }
    let returned = stream.into_inner();
    if !std::rc::Rc::ptr_eq(&returned.0, &console.0) {
        return Err((format!("c18:{tag}:into_inner"), "into_inner returned a different writer".into()));
    }
    let console = console.0.borrow();
    if console.raw_writes > 0 {
        return Err((format!("c18:{tag}:raw-write"), "text was written to the console without going through write_colored".into()));
    }
    let total = accepted_cells(&console.calls);
    if !cells_eq(&total, &expected, run.styles) {
        return Err((format!("c18:{tag}:total"), format!("in total: {}", first_cell_diff(&total, &expected))));
    }
    if let Some(st) = st {
        st.add("console_calls", console.calls.len() as u64);
        st.add("text_bytes_handed_over", total.len() as u64);
        let colored = console.calls.iter().filter(|c| c.fg.is_some() || c.bg.is_some()).count();
        st.add("console_calls_with_colour", colored as u64);
        if aborted {
            st.count("histories_stopped_by_error");
        } else {
            st.count("histories_completed");
        }
    }
    Ok(())
}

fn case_of(run: &Run<'_>) -> Case {
    let mut c = Case::new("c18").b(run.input);
    c = c.n(ALL_APIS.iter().position(|a| *a == run.api).unwrap() as i64).n(run.styles as i64).n(run.script.len() as i64);
    for s in run.script {
        c = c.n(s.code());
    }
    for x in run.cuts {
        c = c.n(*x as i64);
    }
    c
}

fn eval(run: &Run<'_>, st: &mut Stats, enumerated: bool) {
    st.eval();
    if run.input.contains(&0x1b) {
        if enumerated {
            st.nontrivial_enum();
        } else {
            let c = case_of(run);
            let mut key = run.input.to_vec();
            for n in &c.nums {
                key.extend_from_slice(&n.to_le_bytes());
            }
            st.nontrivial_hash(hash64(&key));
        }
    }
    match vcore::guarded(|| run_history(run, Some(st))) {
        Ok(Ok(())) => {}
        Ok(Err((sig, msg))) => st.viol(&sig, format!("{:?} script {:?} cuts {:?}: {msg}", show(&run.input[..run.input.len().min(80)]), run.script, &run.cuts[..run.cuts.len().min(8)]), case_of(run)),
        Err(p) => st.viol(&format!("c18:{:?}:panic", run.api), format!("panicked: {p}"), case_of(run)),
    }
}

pub const SHORT_INPUTS: [&str; 16] = [
    "abc\x1b[31mdef",
    "\x1b[1;32;44mgreen on blue\x1b[0m plain",
    "a\x1b[38;5;9mb\x1b[48;5;200mc\x1b[38;2;1;2;3md",
    "\x1b[91mX\x1b[39mY\x1b[107mZ\x1b[49m",
    "no escapes at all",
    "\u{e9}\x1b[33m\u{6f22}\u{1f600}\x1b[m!",
    "l1\r\nl2\t\x1b[4ml3",
    "\x1b[31",
    "\x1b]0;title\x07after",
    "\x1b[>4;2mvim\x1b[?25l",
    "a\x1b[30;47mb\x1b[7mc",
    "\x1b[38:5:3mx\x1b[48:2:9:9:9my",
    "x",
    "\x1b[mx\x1b[my\x1b[mz",
    "\x1b[35m\x1b[45m\x1b[0mq",
    "ab\x1b[36mcd\x1b[46mef\x1b[0mgh",
];

/// (stream, written before lock(), written through the guard)
pub const LOCK_CASES: [(&str, &[u8], &[u8]); 6] = [
    ("stdout", b"A\x1b[31m", b"RED\x1b[0m.\n"),
    ("stdout", b"x\x1b[3", b"2mGREEN\x1b[39m!\n"),
    ("stdout", b"plain ", b"text\n"),
    ("stderr", b"w\x1b[1;33;44", b"mwarn\x1b[0m: \xc3\xa9\n"),
    ("stderr", b"\x1b[38;5;12mblue \xe6\xbc", b"\xa2 more\x1b[m\n"),
    ("stderr", b"t\x1b]0;ti", b"tle\x07\x1b[92mok\n"),
];

/// Body of the child (`vh c18-lock <case>`): the legacy-console stream over the real standard stream (on this platform
/// its console calls come out as ANSI codes), the first part written before `lock()`, the rest through the guard.
pub fn child_lock(args: &[String]) -> i32 {
    let k: usize = args.first().and_then(|s| s.parse().ok()).unwrap_or(0) % LOCK_CASES.len();
    let (stream, a, b) = LOCK_CASES[k];
    let r = if stream == "stdout" {
        let mut s = WinconStream::new(std::io::stdout());
        s.write_all(a).and_then(|_| s.flush()).and_then(|_| {
            let mut l = s.lock();
            l.write_all(b).and_then(|_| l.flush())
        })
    } else {
        let mut s = WinconStream::new(std::io::stderr());
        s.write_all(a).and_then(|_| s.flush()).and_then(|_| {
            let mut l = s.lock();
            l.write_all(b).and_then(|_| l.flush())
        })
    };
    if r.is_ok() {
        0
    } else {
        4
    }
}

/// `lock()` carries the colour in effect and a sequence / character in progress over to the guard.
pub fn check_lock_case(k: usize) -> Result<usize, (String, String)> {
    let (stream, a, b) = LOCK_CASES[k % LOCK_CASES.len()];
    let exe = std::env::current_exe().map_err(|e| ("c18:harness".to_string(), e.to_string()))?;
    let out = std::process::Command::new(exe).args(["c18-lock", &k.to_string()]).stdin(std::process::Stdio::null()).output().map_err(|e| ("c18:harness".to_string(), e.to_string()))?;
    if !out.status.success() {
        return Err(("c18:lock:child-died".into(), format!("the child ended with {:?}", out.status)));
    }
    let got_bytes = if stream == "stdout" { &out.stdout } else { &out.stderr };
    let mut want: Vec<Cell> = vec![];
    let mut r = RefRuns::new();
    r.feed(a, &mut want);
    r.feed(b, &mut want);
    // what the pipe shows: every character with the 16-colour foreground / background in effect
    let (chars, _) = refmodel::sgr::interpret(got_bytes, UlMode::Select);
    let p16 = |c: Option<Col>| match c {
        Some(Col::P16(n)) => Some(n),
        Some(Col::Idx(n)) if n < 16 => Some(n),
        _ => None,
    };
    let mut got: Vec<Cell> = vec![];
    let mut buf = [0u8; 4];
    for (c, st) in &chars {
        for x in c.encode_utf8(&mut buf).as_bytes() {
            got.push((*x, p16(st.fg), p16(st.bg)));
        }
    }
    if got != want {
        return Err((
            "c18:lock:state-lost".into(),
            format!("{stream}: {:?} written, lock(), {:?} written through the guard: the pipe shows {}, expected {} ({})", show(a), show(b), show_cells(&got), show_cells(&want), first_cell_diff(&got, &want)),
        ));
    }
    Ok(want.len())
}

pub fn run(cfg: &Cfg) -> Stats {
    let (depth, ntext, items, nhostile) = match cfg.tier {
        Tier::Tiny => (1u32, 20u64, 10u64, 10u64),
        Tier::Quick => (3, 20_000, 30, 5_000),
        Tier::Thorough => (4, 600_000, 60, 200_000),
    };
    let mut st = par(cfg, |shard, n| {
        let mut st = Stats::new();
        // fault scripts, exhaustive to `depth`
        let ns = gen::enum_count(STEPS.len() as u64, depth);
        let total = ns * SHORT_INPUTS.len() as u64;
        let mut digits = vec![];
        let mut idx = shard;
        while idx < total {
            let input = SHORT_INPUTS[(idx % SHORT_INPUTS.len() as u64) as usize].as_bytes();
            gen::enum_decode(idx / SHORT_INPUTS.len() as u64, STEPS.len() as u64, &mut digits);
            let script: Vec<Step> = digits.iter().map(|d| STEPS[*d]).collect();
            for api in [Api::Write, Api::WriteAll, Api::WriteFmt, Api::WriteVectored, Api::WriteFmtChars, Api::Mixed] {
                let run = Run { input, cuts: &[], script: &script, api, styles: true };
                eval(&run, &mut st, true);
                if input.len() > 2 {
                    let cut = 1 + (idx / SHORT_INPUTS.len() as u64) as usize % (input.len() - 1);
                    let cuts = [cut];
                    let run = Run { input, cuts: &cuts, script: &script, api, styles: true };
                    eval(&run, &mut st, true);
                }
            }
            idx += n;
        }
        // literal formatted writes: every literal x every script
        let total_l = ns * LITERALS.len() as u64;
        let mut idx = shard;
        while idx < total_l {
            let input = LITERALS[(idx % LITERALS.len() as u64) as usize].as_bytes();
            gen::enum_decode(idx / LITERALS.len() as u64, STEPS.len() as u64, &mut digits);
            let script: Vec<Step> = digits.iter().map(|d| STEPS[*d]).collect();
            let run = Run { input, cuts: &[], script: &script, api: Api::WriteFmtLiteral, styles: true };
            eval(&run, &mut st, true);
            idx += n;
        }
        // a literal formatted write that continues a sequence the previous call left open (and one that sits inside an
        // operating system command): the literal is not text
        if shard == 0 {
            for (prefix, lit, suffix) in [("ab\x1b[1", 5usize, "z"), ("a\x1b[1", 6, "c"), ("q\x1b]0;", 7, "\x07x"), ("\x1b[3", 3, "y"), ("k\x1b[38;5;1", 5, "r"), ("\x1b[4", 6, ""), ("A\x1b[3", 8, "."), ("t\x1b]2;", 8, "\x1b\\u")] {
                let mut input = prefix.as_bytes().to_vec();
                input.extend_from_slice(LITERALS[lit].as_bytes());
                let c1 = prefix.len();
                let c2 = input.len();
                input.extend_from_slice(suffix.as_bytes());
                let cuts: Vec<usize> = if suffix.is_empty() { vec![c1] } else { vec![c1, c2] };
                for script in [&[][..], &[Step::Accept(1)], &[Step::All, Step::Accept(2), Step::All]] {
                    for api in [Api::WriteFmtLiteral, Api::Mixed] {
                        let run = Run { input: &input, cuts: &cuts, script, api, styles: true };
                        eval(&run, &mut st, true);
                    }
                }
            }
            // a colour specification cut short inside a colon group, followed by complete ones in the same sequence
            for text in ["A\x1b[38:2:10:20;38;2;200;31;44mB\x1b[0mC", "A\x1b[48:2:1;31mB", "\x1b[38:5;38;5;2;45mX\x1b[mY", "a\x1b[58:2:1:2;38;2;9;9;35;42mb"] {
                for api in [Api::WriteAll, Api::Write, Api::WriteFmt] {
                    let run = Run { input: text.as_bytes(), cuts: &[], script: &[], api, styles: true };
                    eval(&run, &mut st, true);
                }
            }
        }
        // long runs: one text run of 2^k-2..2^k+2 bytes (plain, styled, multi-byte characters at every offset against
        // the threshold), whole and in two chunks, every all-or-nothing API, without faults and with one short count
        if cfg.tier != Tier::Tiny {
            let mut k = 0u64;
            for t in gen::THRESHOLDS.iter().filter(|t| **t >= 128 && **t <= 32768) {
                for d in -2i64..=2 {
                    for variant in 0..6u8 {
                        k += 1;
                        if k % n != shard {
                            continue;
                        }
                        let len = (*t as i64 + d) as usize;
                        let mut data: Vec<u8> = vec![];
                        match variant {
                            0 => data.extend(std::iter::repeat(b'm').take(len)),
                            1 => {
                                data.extend_from_slice(b"\x1b[31merror\x1b[0m: ");
                                data.extend(std::iter::repeat(b'm').take(len));
                                data.extend_from_slice(b" [7]\n");
                            }
                            2 | 3 | 4 => {
                                // a multi-byte character straddling byte `len` of the run
                                let ch = ["\u{e9}", "\u{6f22}", "\u{1f600}"][(variant - 2) as usize];
                                data.extend(std::iter::repeat(b'a').take(len.saturating_sub(1)));
                                for _ in 0..4 {
                                    data.extend_from_slice(ch.as_bytes());
                                }
                                data.extend_from_slice(b"tail");
                            }
                            _ => {
                                data.extend_from_slice(b"\x1b[1;32m");
                                while data.len() < len {
                                    data.extend_from_slice("\u{6f22}\u{e9}x".as_bytes());
                                }
                                data.extend_from_slice(b"\x1b[0m.");
                            }
                        }
                        for api in [Api::WriteAll, Api::WriteFmt, Api::WriteFmtBig, Api::Write] {
                            let run = Run { input: &data, cuts: &[], script: &[], api, styles: true };
                            eval(&run, &mut st, true);
                            if api != Api::Write {
                                let script = [Step::All, Step::Accept(3), Step::All, Step::Accept(1)];
                                let run = Run { input: &data, cuts: &[], script: &script, api, styles: true };
                                eval(&run, &mut st, true);
                            }
                        }
                        let cut = floor_boundary(std::str::from_utf8(&data).unwrap(), data.len() / 3);
                        if cut > 0 {
                            let cuts = [cut];
                            let run = Run { input: &data, cuts: &cuts, script: &[], api: Api::WriteFmtBig, styles: true };
                            eval(&run, &mut st, true);
                        }
                    }
                }
            }
        }
        // grammar texts with chunkings (no faults, or random faults)
        let mut i = shard;
        while i < ntext {
            let mut rng = Rng::new(cfg.seed, 0xC18_0000_0000 + i);
            let data = gen::gen_sgr_text(&mut rng, SgrOpts::default(), items, &[]);
            let chunker = *rng.pick(&[Chunker::Whole, Chunker::Single, Chunker::Random(7), Chunker::Random(50), Chunker::Fixed(4)]);
            let cuts = gen::chunk_cuts(&mut rng, data.len(), chunker);
            let api = match rng.below(9) {
                0 => Api::WriteFmtBig,
                1 => Api::WriteFmtChars,
                2 | 3 => Api::Mixed,
                _ => APIS[rng.below(4) as usize],
            };
            let cuts = match (api, std::str::from_utf8(&data)) {
                (Api::WriteFmt | Api::WriteFmtBig | Api::WriteFmtChars | Api::Mixed, Ok(s)) => gen::cuts_to_char_boundaries(s, &cuts),
                _ => cuts,
            };
            let script: Vec<Step> = if rng.chance(1, 2) {
                vec![]
            } else {
                (0..rng.range(1, 30))
                    .map(|_| match rng.below(10) {
                        0 => Step::Accept(1),
                        1 => Step::Accept(2),
                        2 => Step::Accept(3),
                        3 => Step::Interrupted,
                        4 if rng.chance(1, 4) => Step::WouldBlock,
                        5 if rng.chance(1, 4) => Step::Other,
                        6 if rng.chance(1, 4) => Step::Accept(0),
                        _ => Step::All,
                    })
                    .collect()
            };
            if i < 3 {
                st.sample(6, || {
                    let mut o = J::obj();
                    o.set("origin", J::s("SGR grammar text"));
                    o.set("input", J::s(show(&data[..data.len().min(160)])));
                    o.set("api", J::s(format!("{api:?}")));
                    o.set("chunks", J::UInt(cuts.len() as u64 + 1));
                    o.set("console_script", J::s(format!("{script:?}")));
                    o
                });
            }
            let run = Run { input: &data, cuts: &cuts, script: &script, api, styles: true };
            eval(&run, &mut st, false);
            i += n;
        }
        // lock() on the standard-stream variants (child processes)
        if cfg.tier != Tier::Tiny && shard == 0 {
            for k in 0..LOCK_CASES.len() {
                st.eval();
                st.nontrivial_enum();
                match vcore::guarded(|| check_lock_case(k)) {
                    Ok(Ok(n)) => st.add("cells_compared_across_lock", n as u64),
                    Ok(Err((sig, msg))) => st.viol(&sig, msg, Case::new("c18-lock").n(k as i64)),
                    Err(p) => st.viol("c18:lock:panic", format!("panicked: {p}"), Case::new("c18-lock").n(k as i64)),
                }
            }
        }
        // hostile streams: text and no-escape rule only
        let mut i = shard;
        while i < nhostile {
            let mut rng = Rng::new(cfg.seed, 0xC18_8000_0000 + i);
            let data = gen::gen_stream(&mut rng, 1024, false);
            let cuts = gen::chunk_cuts(&mut rng, data.len(), Chunker::Random(40));
            let run = Run { input: &data, cuts: &cuts, script: &[], api: Api::WriteAll, styles: false };
            eval(&run, &mut st, false);
            i += n;
        }
        st
    });
    st.exhaustive_parts.push(format!("all console scripts of length <= {depth} over 8 step kinds x {} short inputs x 5 call shapes x (whole | one rotating cut); the same scripts x {} literal formatted writes; text runs of 2^k-2..2^k+2 bytes up to 32768 x 6 shapes x 4 APIs", SHORT_INPUTS.len(), LITERALS.len()));
    st
}

pub fn replay(case: &Case) -> Result<String, Viol> {
    if case.kind == "c18-lock" {
        let k = case.nums.first().copied().unwrap_or(0) as usize;
        return match vcore::guarded(|| check_lock_case(k)) {
            Ok(Ok(n)) => Ok(format!("{n} cells agree across lock()")),
            Ok(Err((sig, msg))) => Err(Viol { case: case.clone(), msg, sig }),
            Err(p) => Err(Viol { case: case.clone(), msg: format!("panicked: {p}"), sig: "c18:lock:panic".into() }),
        };
    }
    let input = case.bytes.first().cloned().unwrap_or_default();
    let nums = &case.nums;
    let api = ALL_APIS[nums.first().copied().unwrap_or(1) as usize % 8];
    let styles = nums.get(1).copied().unwrap_or(1) != 0;
    let sl = nums.get(2).copied().unwrap_or(0) as usize;
    let script: Vec<Step> = nums.iter().skip(3).take(sl).map(|c| STEPS[*c as usize % 8]).collect();
    let cuts: Vec<usize> = nums.iter().skip(3 + sl).map(|c| *c as usize).collect();
    let run = Run { input: &input, cuts: &cuts, script: &script, api, styles };
    match vcore::guarded(|| run_history(&run, None)) {
        Ok(Ok(())) => Ok("console calls match the reference runs".into()),
        Ok(Err((sig, msg))) => Err(Viol { case: case.clone(), msg, sig }),
        Err(p) => Err(Viol { case: case.clone(), msg: format!("panicked: {p}"), sig: "c18:panic".into() }),
    }
}
