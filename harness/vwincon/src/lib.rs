//! C18 harness: the platform-independent source of anstream's legacy-console stream (`wincon.rs`, only built on
//! Windows by the crate itself) is compiled here *from the working tree* by path inclusion, together with the
//! `fmt.rs` helper it uses.  Three shim modules provide the names it imports from its own crate.
#![allow(dead_code, unreachable_pub, missing_docs, clippy::all)]

pub mod adapter {
    pub use anstream::adapter::WinconBytes;
}

pub mod stream {
    //! local stand-ins for anstream's sealed stream traits
    pub trait IsTerminal {
        fn is_terminal(&self) -> bool;
    }

    pub trait AsLockedWrite {
        type Write<'w>: anstyle_wincon::WinconStream + std::io::Write + 'w
        where
            Self: 'w;
        fn as_locked_write(&mut self) -> Self::Write<'_>;
    }

    impl AsLockedWrite for std::io::Stdout {
        type Write<'w> = std::io::StdoutLock<'w>;
        fn as_locked_write(&mut self) -> Self::Write<'_> {
            self.lock()
        }
    }
    impl AsLockedWrite for std::io::Stderr {
        type Write<'w> = std::io::StderrLock<'w>;
        fn as_locked_write(&mut self) -> Self::Write<'_> {
            self.lock()
        }
    }
    impl AsLockedWrite for std::io::StdoutLock<'static> {
        type Write<'w> = &'w mut Self;
        fn as_locked_write(&mut self) -> Self::Write<'_> {
            self
        }
    }
    impl AsLockedWrite for std::io::StderrLock<'static> {
        type Write<'w> = &'w mut Self;
        fn as_locked_write(&mut self) -> Self::Write<'_> {
            self
        }
    }
    impl AsLockedWrite for Vec<u8> {
        type Write<'w> = &'w mut Self;
        fn as_locked_write(&mut self) -> Self::Write<'_> {
            self
        }
    }
    impl AsLockedWrite for crate::c18::Console {
        type Write<'w> = &'w mut Self;
        fn as_locked_write(&mut self) -> Self::Write<'_> {
            self
        }
    }
    impl IsTerminal for crate::c18::Console {
        fn is_terminal(&self) -> bool {
            true
        }
    }
}

#[path = "/repo/crates/anstream/src/fmt.rs"]
pub mod fmt;

#[path = "/repo/crates/anstream/src/wincon.rs"]
pub mod wincon;

pub mod c17;
pub mod c18;
