//! C17 — ANSI fallback for coloured writes frames the data and reports true progress.
use anstyle_wincon::WinconStream as _;
use refmodel::gen;
use refmodel::json::{show, J};
use refmodel::rng::{hash64, Rng};
use refmodel::sgr::{Col, RefSgr, SgrState, UlMode};
use refmodel::vt::{self, Ev, Policy};
use std::cell::RefCell;
use std::io::{ErrorKind, Read, Seek, Write};
use std::rc::Rc;
use vcore::adapt::ANSI16;
use vcore::c06::{Scripted, Shared, Step, STEPS};
use vcore::{par, Case, Cfg, Stats, Tier, Viol};

fn color(i: usize) -> Option<anstyle::AnsiColor> {
    if i == 0 {
        None
    } else {
        Some(ANSI16[i - 1])
    }
}
fn col(i: usize) -> Option<Col> {
    if i == 0 {
        None
    } else {
        Some(Col::P16((i - 1) as u8))
    }
}

/// `bytes` must consist of SGR sequences only; returns the state they produce from `from`.
fn sgr_only(bytes: &[u8], from: SgrState) -> Result<SgrState, String> {
    // nothing but whole `ESC [ parameters m` sequences (a torn introducer that a terminal would forgive is not a code)
    let mut i = 0;
    while i < bytes.len() {
        if bytes[i..].starts_with(b"\x1b[") {
            let mut j = i + 2;
            while j < bytes.len() && (bytes[j].is_ascii_digit() || bytes[j] == b';' || bytes[j] == b':') {
                j += 1;
            }
            if j < bytes.len() && bytes[j] == b'm' {
                i = j + 1;
                continue;
            }
        }
        return Err(format!("code bytes {:?} are not a run of complete SGR sequences", show(bytes)));
    }
    let ev = vt::parse(bytes, Policy::Consume);
    let mut sgr = RefSgr::new(UlMode::Flags);
    sgr.s = from;
    for e in &ev {
        match e {
            Ev::Csi { fin: b'm', inter, ignore: false, .. } if inter.is_empty() => {
                sgr.on_event(e);
            }
            other => return Err(format!("unexpected {:?} in {:?}", other, show(bytes))),
        }
    }
    // an unterminated sequence would be swallowed silently by the event list: require a complete parse
    let mut r = vt::RefVt::new(Policy::Consume);
    r.feed(bytes);
    if r.slot() != 0 {
        return Err(format!("code bytes {:?} end inside a sequence", show(bytes)));
    }
    Ok(sgr.s)
}

/// Check the final bytes of a fault-free coloured write.
fn check_framing(out: &[u8], fgi: usize, bgi: usize, data: &[u8], accepted: usize) -> Result<(), (String, String)> {
    let want = SgrState { fg: col(fgi), bg: col(bgi), ul: None, fx: 0 };
    if fgi == 0 && bgi == 0 {
        if out != &data[..accepted] {
            return Err(("c17:code-without-colour".into(), format!("no colour requested, yet the writer received {:?} for data {:?}", show(out), show(data))));
        }
        return Ok(());
    }
    // locate the data: the output must be  <codes> data[..accepted] <reset>
    let d = &data[..accepted];
    let mut found = None;
    if out.len() < d.len() {
        return Err(("c17:framing".into(), format!("output {:?} is shorter than the data {:?}", show(out), show(d))));
    }
    for start in 0..=out.len() - d.len() {
        if &out[start..start + d.len()] == d {
            if let (Ok(a), Ok(b)) = (sgr_only(&out[..start], SgrState::default()), sgr_only(&out[start + d.len()..], want)) {
                let exact = a == want && b == SgrState::default();
                if found.is_none() || exact {
                    found = Some((a, b));
                }
                if exact {
                    break;
                }
            }
        }
    }
    let Some((before, after)) = found else {
        return Err(("c17:framing".into(), format!("output {:?} is not <SGR codes> + data + <SGR codes> for data {:?}", show(out), show(d))));
    };
    if before != want {
        return Err(("c17:colours".into(), format!("the codes before the data select [{}], requested [{}]", before.describe(), want.describe())));
    }
    if after != SgrState::default() {
        return Err(("c17:reset".into(), format!("after the data the state is [{}], not the default", after.describe())));
    }
    // stripping gives back the data (for data without escape bytes)
    if !d.contains(&0x1b) && std::str::from_utf8(d).is_ok() {
        let vis = vt::visible(out, Policy::Consume);
        let dvis = vt::visible(d, Policy::Consume);
        if vis != dvis {
            return Err(("c17:strip".into(), format!("stripping the output gives {:?}, the data is {:?}", show(&vis), show(&dvis))));
        }
    }
    Ok(())
}

#[derive(Clone, Copy, Debug, PartialEq, Eq)]
pub enum Target {
    Vec,
    File,
    DynRef,
    BoxDyn,
}
pub const TARGETS: [Target; 4] = [Target::Vec, Target::File, Target::DynRef, Target::BoxDyn];

pub fn check_plain(fgi: usize, bgi: usize, data: &[u8], target: Target) -> Result<(), (String, String)> {
    let (fg, bg) = (color(fgi), color(bgi));
    let (ret, out): (std::io::Result<usize>, Vec<u8>) = match target {
        Target::Vec => {
            let mut v: Vec<u8> = Vec::new();
            let r = v.write_colored(fg, bg, data);
            (r, v)
        }
        Target::DynRef => {
            let mut v: Vec<u8> = Vec::new();
            let r = {
                let w: &mut dyn Write = &mut v;
                w.write_colored(fg, bg, data)
            };
            (r, v)
        }
        Target::BoxDyn => {
            let shared = Rc::new(RefCell::new(Shared::default()));
            let mut b: Box<dyn Write> = Box::new(Scripted(shared.clone()));
            let r = b.write_colored(fg, bg, data);
            let out = shared.borrow().delivered.clone();
            (r, out)
        }
        Target::File => {
            let dir = std::env::temp_dir();
            let path = dir.join(format!("vh-c17-{}-{:?}.tmp", std::process::id(), std::thread::current().id()));
            let mut f = std::fs::OpenOptions::new().create(true).truncate(true).read(true).write(true).open(&path).map_err(|e| ("c17:harness".to_string(), e.to_string()))?;
            let r = f.write_colored(fg, bg, data);
            let mut out = vec![];
            let _ = f.flush();
            let _ = f.seek(std::io::SeekFrom::Start(0));
            let _ = f.read_to_end(&mut out);
            drop(f);
            let _ = std::fs::remove_file(&path);
            (r, out)
        }
    };
    let n = match ret {
        Ok(n) => n,
        Err(e) => return Err((format!("c17:{target:?}:unexpected-error"), format!("fault-free write failed: {e}"))),
    };
    if n != data.len() {
        return Err((format!("c17:{target:?}:count"), format!("returned {n} for {} data bytes although the writer accepts everything", data.len())));
    }
    check_framing(&out, fgi, bgi, data, n).map_err(|(s, m)| (s.replace("c17:", &format!("c17:{target:?}:")), m))
}

pub const STDIO_KINDS: [&str; 4] = ["stdout", "stdout_lock", "stderr", "stderr_lock"];

/// Body of the child process (`vh c17-child <kind> <fg> <bg> <hex data>`): one coloured write on a standard stream,
/// the returned count goes to the other stream.
pub fn child(args: &[String]) -> i32 {
    let kind = args.first().map(|s| s.as_str()).unwrap_or("");
    let fgi: usize = args.get(1).and_then(|s| s.parse().ok()).unwrap_or(0);
    let bgi: usize = args.get(2).and_then(|s| s.parse().ok()).unwrap_or(0);
    let data = refmodel::json::unhex(args.get(3).map(|s| s.as_str()).unwrap_or("")).unwrap_or_default();
    let (fg, bg) = (color(fgi), color(bgi));
    if let Some(inner) = kind.strip_prefix("tls-") {
        return child_tls(inner, fg, bg, data);
    }
    let r = match kind {
        "stdout" => std::io::stdout().write_colored(fg, bg, &data),
        "stdout_lock" => std::io::stdout().lock().write_colored(fg, bg, &data),
        "stderr" => std::io::stderr().write_colored(fg, bg, &data),
        "stderr_lock" => std::io::stderr().lock().write_colored(fg, bg, &data),
        _ => return 3,
    };
    let _ = std::io::stdout().flush();
    let _ = std::io::stderr().flush();
    let report = match r {
        Ok(n) => format!("ok {n}"),
        Err(e) => format!("err {:?}", e.kind()),
    };
    if kind.starts_with("stdout") {
        eprint!("{report}");
    } else {
        print!("{report}");
    }
    0
}

fn write_kind(kind: &str, fg: Option<anstyle::AnsiColor>, bg: Option<anstyle::AnsiColor>, data: &[u8]) -> std::io::Result<usize> {
    match kind {
        "stdout" => std::io::stdout().write_colored(fg, bg, data),
        "stdout_lock" => std::io::stdout().lock().write_colored(fg, bg, data),
        "stderr" => std::io::stderr().write_colored(fg, bg, data),
        _ => std::io::stderr().lock().write_colored(fg, bg, data),
    }
}

struct Bye(String, Option<anstyle::AnsiColor>, Option<anstyle::AnsiColor>);

impl Drop for Bye {
    fn drop(&mut self) {
        let _ = write_kind(&self.0, self.1, self.2, b"bye!");
        let _ = std::io::stdout().flush();
    }
}

thread_local! {
    static BYE: RefCell<Option<Bye>> = const { RefCell::new(None) };
}

/// `vh c17-child tls-<kind> ...`: the coloured write happens on a spawned thread that owns a thread-local whose
/// destructor makes another coloured write on the same stream while the thread is being torn down (a logger saying
/// good-bye); the thread-local is initialised before the first write, so it is destroyed after anything that write
/// may have created.
fn child_tls(kind: &str, fg: Option<anstyle::AnsiColor>, bg: Option<anstyle::AnsiColor>, data: Vec<u8>) -> i32 {
    let k = kind.to_string();
    let h = std::thread::spawn(move || {
        BYE.with(|b| *b.borrow_mut() = Some(Bye(k.clone(), fg, bg)));
        let r = write_kind(&k, fg, bg, &data);
        let _ = std::io::stdout().flush();
        r
    });
    let r = match h.join() {
        Ok(r) => r,
        Err(_) => return 4,
    };
    let _ = std::io::stdout().flush();
    let report = match r {
        Ok(n) => format!("ok {n}"),
        Err(e) => format!("err {:?}", e.kind()),
    };
    if kind.starts_with("stdout") {
        eprint!("{report}");
    } else {
        print!("{report}");
    }
    0
}

/// The parent side of `tls-<kind>`: the child ends normally and the stream holds two whole frames.
pub fn check_stdio_tls(kind: &str, fgi: usize, bgi: usize, data: &[u8]) -> Result<(), (String, String)> {
    let exe = std::env::current_exe().map_err(|e| ("c17:harness".to_string(), e.to_string()))?;
    let out = std::process::Command::new(exe)
        .args(["c17-child", &format!("tls-{kind}"), &fgi.to_string(), &bgi.to_string(), &refmodel::json::hex(data)])
        .stdin(std::process::Stdio::null())
        .output()
        .map_err(|e| ("c17:harness".to_string(), e.to_string()))?;
    if !out.status.success() {
        return Err((format!("c17:{kind}:child-died"), format!("a coloured write from a thread-local destructor: the child process ended with {:?}: {:?}", out.status, show(&out.stderr[..out.stderr.len().min(300)]))));
    }
    let (stream, report) = if kind.starts_with("stdout") { (&out.stdout, &out.stderr) } else { (&out.stderr, &out.stdout) };
    let report = String::from_utf8_lossy(report).into_owned();
    let Some(n) = report.strip_prefix("ok ").and_then(|s| s.parse::<usize>().ok()) else {
        return Err((format!("c17:{kind}:unexpected-error"), format!("write on a pipe reported {report:?}")));
    };
    let n = n.min(data.len());
    for cut in 0..=stream.len() {
        if check_framing(&stream[..cut], fgi, bgi, data, n).is_ok() && check_framing(&stream[cut..], fgi, bgi, b"bye!", 4).is_ok() {
            return Ok(());
        }
    }
    Err((format!("c17:{kind}:frames-with-thread-local-destructor"), format!("expected the frame of the thread's write followed by the frame written while its thread-locals were destroyed, the pipe holds {:?}", show(&stream[..stream.len().min(200)]))))
}

fn mt_record(tid: u64, seq: u64) -> (usize, usize, Vec<u8>) {
    let h = hash64(&[tid.to_le_bytes(), seq.to_le_bytes()].concat());
    let (fgi, bgi) = ((h % 17) as usize, ((h >> 8) % 17) as usize);
    let body: String = (0..(3 + h % 40)).map(|k| (b'a' + ((h >> 16).wrapping_add(k) % 26) as u8) as char).collect();
    (fgi, bgi, format!("<{tid}:{seq}:{body}>\n").into_bytes())
}

/// Body of the multi-threaded child (`vh c17-mt <kind> <threads> <per>`): every thread sends its records through the
/// process-wide standard stream handle with one coloured write each.
pub fn child_mt(args: &[String]) -> i32 {
    let kind = args.first().cloned().unwrap_or_default();
    let threads: u64 = args.get(1).and_then(|s| s.parse().ok()).unwrap_or(4);
    let per: u64 = args.get(2).and_then(|s| s.parse().ok()).unwrap_or(100);
    let barrier = std::sync::Arc::new(std::sync::Barrier::new(threads as usize));
    let hs: Vec<_> = (0..threads)
        .map(|tid| {
            let barrier = barrier.clone();
            let kind = kind.clone();
            std::thread::spawn(move || {
                let mut short = 0u64;
                barrier.wait();
                for seq in 0..per {
                    let (fgi, bgi, data) = mt_record(tid, seq);
                    let r = if kind == "stdout" { std::io::stdout().write_colored(color(fgi), color(bgi), &data) } else { std::io::stderr().write_colored(color(fgi), color(bgi), &data) };
                    if r.ok() != Some(data.len()) {
                        short += 1;
                    }
                }
                short
            })
        })
        .collect();
    let short: u64 = hs.into_iter().map(|h| h.join().unwrap_or(1)).sum();
    let _ = std::io::stdout().flush();
    if kind == "stdout" {
        eprint!("done {short}");
    } else {
        print!("done {short}");
    }
    0
}

/// Several threads write through `std::io::Stdout` / `Stderr` at once: the stream must be a concatenation of whole
/// frames (each record in its own colours, reset after it), every record once, per-thread order kept.
pub fn check_stdio_mt(kind: &str, threads: u64, per: u64, st: &mut Stats) -> Result<(), (String, String)> {
    let exe = std::env::current_exe().map_err(|e| ("c17:harness".to_string(), e.to_string()))?;
    let out = std::process::Command::new(exe)
        .args(["c17-mt", kind, &threads.to_string(), &per.to_string()])
        .stdin(std::process::Stdio::null())
        .output()
        .map_err(|e| ("c17:harness".to_string(), e.to_string()))?;
    let (stream, report) = if kind == "stdout" { (&out.stdout, &out.stderr) } else { (&out.stderr, &out.stdout) };
    if !out.status.success() || String::from_utf8_lossy(report) != "done 0" {
        // a short count from the standard stream (or a dead child) is not what this lane studies
        st.count("multi_threaded_runs_without_verdict");
        return Ok(());
    }
    let frame = |tid: u64, seq: u64| {
        let (fgi, bgi, data) = mt_record(tid, seq);
        let mut v: Vec<u8> = vec![];
        let _ = v.write_colored(color(fgi), color(bgi), &data);
        v
    };
    let mut next = vec![0u64; threads as usize];
    let mut pos = 0usize;
    let mut switches = 0u64;
    let mut prev = u64::MAX;
    while pos < stream.len() {
        let mut hit = None;
        for tid in 0..threads {
            if next[tid as usize] < per {
                let f = frame(tid, next[tid as usize]);
                if stream[pos..].starts_with(&f) {
                    hit = Some((tid, f.len()));
                    break;
                }
            }
        }
        match hit {
            Some((tid, len)) => {
                pos += len;
                next[tid as usize] += 1;
                if prev != u64::MAX && prev != tid {
                    switches += 1;
                }
                prev = tid;
            }
            None => {
                return Err((
                    format!("c17:{kind}:interleaved-frames"),
                    format!("{threads} threads writing through std::io::{kind}: at byte {pos} the stream does not continue with a whole frame of any thread's next record: {:?}", show(&stream[pos..(pos + 120).min(stream.len())])),
                ));
            }
        }
    }
    if next.iter().any(|n| *n != per) {
        return Err((format!("c17:{kind}:lost-frames"), format!("records seen per thread {next:?}, expected {per} each")));
    }
    st.add("multi_threaded_frames_checked", threads * per);
    st.add("multi_threaded_thread_switches", switches);
    Ok(())
}

/// Standard-stream writer kinds: run the child, capture both pipes, apply the framing rule to what the stream received.
pub fn check_stdio(kind: &str, fgi: usize, bgi: usize, data: &[u8]) -> Result<(), (String, String)> {
    let exe = std::env::current_exe().map_err(|e| ("c17:harness".to_string(), e.to_string()))?;
    let out = std::process::Command::new(exe)
        .args(["c17-child", kind, &fgi.to_string(), &bgi.to_string(), &refmodel::json::hex(data)])
        .stdin(std::process::Stdio::null())
        .output()
        .map_err(|e| ("c17:harness".to_string(), e.to_string()))?;
    if !out.status.success() {
        return Err((format!("c17:{kind}:child-died"), format!("the child process ended with {:?}: {:?}", out.status, show(&out.stderr[..out.stderr.len().min(300)]))));
    }
    let (stream, report) = if kind.starts_with("stdout") { (&out.stdout, &out.stderr) } else { (&out.stderr, &out.stdout) };
    let report = String::from_utf8_lossy(report).into_owned();
    let Some(n) = report.strip_prefix("ok ").and_then(|s| s.parse::<usize>().ok()) else {
        return Err((format!("c17:{kind}:unexpected-error"), format!("write on a pipe reported {report:?}")));
    };
    if n > data.len() {
        return Err((format!("c17:{kind}:count"), format!("returned {n} for {} data bytes", data.len())));
    }
    // a standard stream may accept a prefix only (line buffering): the framing rule is applied to the accepted part
    check_framing(stream, fgi, bgi, data, n).map_err(|(s, m)| (s.replace("c17:", &format!("c17:{kind}:")), m))
}

/// A standard stream attached to a device that accepts nothing (/dev/full): the coloured write must report the failure.
pub fn check_stdio_full(kind: &str, fgi: usize, bgi: usize, data: &[u8]) -> Result<(), (String, String)> {
    let Ok(full) = std::fs::OpenOptions::new().write(true).open("/dev/full") else { return Ok(()) };
    let exe = std::env::current_exe().map_err(|e| ("c17:harness".to_string(), e.to_string()))?;
    let mut cmd = std::process::Command::new(exe);
    cmd.args(["c17-child", kind, &fgi.to_string(), &bgi.to_string(), &refmodel::json::hex(data)]).stdin(std::process::Stdio::null());
    if kind.starts_with("stdout") {
        cmd.stdout(full).stderr(std::process::Stdio::piped());
    } else {
        cmd.stderr(full).stdout(std::process::Stdio::piped());
    }
    let out = cmd.output().map_err(|e| ("c17:harness".to_string(), e.to_string()))?;
    let report = String::from_utf8_lossy(if kind.starts_with("stdout") { &out.stderr } else { &out.stdout }).into_owned();
    // stdout is line buffered by std: data without a newline may be accepted into the buffer and fail only at flush time,
    // which is outside the coloured write; the unbuffered stderr has to fail in the call itself
    if kind.starts_with("stderr") && !data.is_empty() && report.starts_with("ok") {
        return Err((format!("c17:{kind}:error-swallowed"), format!("stderr is attached to /dev/full, yet the coloured write of {:?} reported {report:?}", show(data))));
    }
    Ok(())
}

/// `File` kind, a failed call followed by a good one: a coloured write on a read-only handle fails; the next write on a
/// healthy file (same thread) must be framed on its own, with nothing left over from the failed call.
pub fn check_file_sequence(fgi: usize, bgi: usize, data: &[u8]) -> Result<(), (String, String)> {
    let (fg, bg) = (color(fgi), color(bgi));
    let dir = std::env::temp_dir();
    let path = dir.join(format!("vh-c17seq-{}-{:?}.tmp", std::process::id(), std::thread::current().id()));
    let h = |e: std::io::Error| ("c17:harness".to_string(), e.to_string());
    std::fs::write(&path, b"").map_err(h)?;
    let mut ro = std::fs::File::open(&path).map_err(h)?;
    let first = ro.write_colored(color(2), color(3), b"first message");
    drop(ro);
    if first.is_ok() {
        let _ = std::fs::remove_file(&path);
        return Err(("c17:File:error-swallowed".into(), format!("a coloured write on a read-only file handle returned {first:?}: the writer accepted nothing, yet no error reached the caller")));
    }
    let mut f = std::fs::OpenOptions::new().truncate(true).read(true).write(true).open(&path).map_err(h)?;
    let r = f.write_colored(fg, bg, data);
    let mut out = vec![];
    let _ = f.flush();
    let _ = f.seek(std::io::SeekFrom::Start(0));
    let _ = f.read_to_end(&mut out);
    drop(f);
    let _ = std::fs::remove_file(&path);
    let n = match r {
        Ok(n) => n,
        Err(e) => return Err(("c17:File-after-error:unexpected-error".into(), format!("write on a healthy file failed: {e}"))),
    };
    if n != data.len() {
        return Err(("c17:File-after-error:count".into(), format!("returned {n} for {} data bytes", data.len())));
    }
    check_framing(&out, fgi, bgi, data, n).map_err(|(s, m)| (s.replace("c17:", "c17:File-after-error:"), m))
}

/// The scripted writer of C06 behind a mutex, so that it can sit in `Box<dyn Write + Send + Sync>`.
pub struct SendScripted(pub std::sync::Arc<std::sync::Mutex<Shared>>, pub bool);

impl Write for SendScripted {
    fn write(&mut self, buf: &[u8]) -> std::io::Result<usize> {
        let mut s = self.0.lock().expect("lock");
        let step = s.script.get(s.pos).copied().unwrap_or(Step::All);
        s.pos += 1;
        let r = match step {
            Step::Accept(k) => Ok((k as usize).min(buf.len())),
            Step::All => Ok(buf.len()),
            Step::Interrupted => Err(std::io::Error::new(ErrorKind::Interrupted, "injected")),
            Step::WouldBlock => Err(std::io::Error::new(ErrorKind::WouldBlock, "injected")),
            Step::Other => Err(std::io::Error::new(ErrorKind::Other, "injected")),
        };
        let n = *r.as_ref().unwrap_or(&0);
        s.delivered.extend_from_slice(&buf[..n]);
        s.calls.push(vcore::c06::InnerCall { offered: buf.to_vec(), step, accepted: n });
        r
    }
    /// a real gathering write: the script's byte counts run across the slices
    fn write_vectored(&mut self, bufs: &[std::io::IoSlice<'_>]) -> std::io::Result<usize> {
        let all: Vec<u8> = bufs.iter().flat_map(|b| b.iter().copied()).collect();
        self.write(&all)
    }
    fn flush(&mut self) -> std::io::Result<()> {
        self.0.lock().expect("lock").flushes += 1;
        if self.1 {
            // a device that cannot be flushed (a coloured write is not a flush: what it returns must not depend on this)
            return Err(std::io::Error::new(ErrorKind::Other, "flush failed"));
        }
        Ok(())
    }
}

/// A sink that takes at most `cap` bytes per call, in `write` and - gathering across the slices - in `write_vectored`
/// (a pipe or socket with little room).
struct Capped {
    cap: usize,
    got: Vec<u8>,
    calls: usize,
}

impl Write for Capped {
    fn write(&mut self, buf: &[u8]) -> std::io::Result<usize> {
        self.calls += 1;
        let n = buf.len().min(self.cap);
        self.got.extend_from_slice(&buf[..n]);
        Ok(n)
    }
    fn write_vectored(&mut self, bufs: &[std::io::IoSlice<'_>]) -> std::io::Result<usize> {
        self.calls += 1;
        let mut left = self.cap;
        let mut n = 0;
        for b in bufs {
            let k = b.len().min(left);
            self.got.extend_from_slice(&b[..k]);
            left -= k;
            n += k;
            if left == 0 {
                break;
            }
        }
        Ok(n)
    }
    fn flush(&mut self) -> std::io::Result<()> {
        Ok(())
    }
}

/// No fault at all, only little room per call: the call succeeds and the sink holds one exact frame around the data
/// bytes reported as accepted.
pub fn check_capped(fgi: usize, bgi: usize, data: &[u8], cap: usize) -> Result<(), (String, String)> {
    let mut w: Box<dyn Write> = Box::new(Capped { cap, got: vec![], calls: 0 });
    // (through the trait object, as the other scripted writers)
    let r = w.write_colored(color(fgi), color(bgi), data);
    let _ = r.as_ref().map_err(|e| e.kind());
    // the box hides the sink: run it again on the concrete type to look inside
    let mut c = Capped { cap, got: vec![], calls: 0 };
    let r2 = {
        let d: &mut dyn Write = &mut c;
        d.write_colored(color(fgi), color(bgi), data)
    };
    match (r, r2) {
        (Ok(a), Ok(n)) if a == n => {
            if n > data.len() {
                return Err(("c17:capped:count".into(), format!("returned {n} for {} data bytes", data.len())));
            }
            check_framing(&c.got, fgi, bgi, data, n).map_err(|(s, m)| (s.replace("c17:", "c17:capped:"), format!("{m} (sink takes {cap} bytes per call, the call returned Ok({n}))")))
        }
        (a, b) => Err(("c17:capped:unexpected-error".into(), format!("a sink that takes {cap} bytes per call and never fails: the calls returned {a:?} / {b:?}"))),
    }
}

/// A writer that keeps a coloured transcript of what passes through it: its own `write` performs a coloured write on
/// another stream (stacked adapters, a tee).
struct Tee {
    inner: Vec<u8>,
    transcript: Vec<u8>,
}

impl Write for Tee {
    fn write(&mut self, buf: &[u8]) -> std::io::Result<usize> {
        let _ = self.transcript.write_colored(color(9), None, buf)?;
        self.inner.extend_from_slice(buf);
        Ok(buf.len())
    }
    fn flush(&mut self) -> std::io::Result<()> {
        Ok(())
    }
}

pub fn check_nested(fgi: usize, bgi: usize, data: &[u8]) -> Result<(), (String, String)> {
    let mut tee = Tee { inner: vec![], transcript: vec![] };
    let n = {
        let w: &mut dyn Write = &mut tee;
        w.write_colored(color(fgi), color(bgi), data).map_err(|e| ("c17:nested:unexpected-error".to_string(), e.to_string()))?
    };
    if n != data.len() {
        return Err(("c17:nested:count".into(), format!("returned {n} for {} data bytes", data.len())));
    }
    check_framing(&tee.inner, fgi, bgi, data, n).map_err(|(s, m)| (s.replace("c17:", "c17:nested:"), m))
}

pub fn check_scripted(fgi: usize, bgi: usize, data: &[u8], script: &[Step], st: Option<&mut Stats>) -> Result<(), (String, String)> {
    let (fg, bg) = (color(fgi), color(bgi));
    // the three trait-object kinds that have their own impl, chosen by the case (deterministic, so replays agree)
    let shared = std::sync::Arc::new(std::sync::Mutex::new(Shared { script: script.to_vec(), ..Default::default() }));
    let bad_flush = (fgi + bgi + script.len()) % 4 == 1;
    let ret = match (fgi + 2 * bgi + script.len() + data.len()) % 3 {
        0 => {
            let mut w: Box<dyn Write> = Box::new(SendScripted(shared.clone(), bad_flush));
            w.write_colored(fg, bg, data)
        }
        1 => {
            let mut w: Box<dyn Write + Send> = Box::new(SendScripted(shared.clone(), bad_flush));
            w.write_colored(fg, bg, data)
        }
        _ => {
            let mut w: Box<dyn Write + Send + Sync> = Box::new(SendScripted(shared.clone(), bad_flush));
            w.write_colored(fg, bg, data)
        }
    };
    let sh = shared.lock().expect("lock");
    // the data write: the first inner write after the (up to two) colour codes have been written completely.  A code
    // is written with write_all semantics (retried on a short count / Interrupted), the data with a single write.
    let ncodes = fg.is_some() as usize + bg.is_some() as usize;
    let didx = {
        let calls = &sh.calls;
        let mut idx = 0;
        let mut group = 0;
        let mut found = None;
        while idx < calls.len() {
            if group == ncodes {
                found = Some(idx);
                break;
            }
            let mut remaining = calls[idx].offered.len();
            while idx < calls.len() {
                let c = &calls[idx];
                idx += 1;
                match c.step {
                    Step::Interrupted => continue,
                    Step::WouldBlock | Step::Other => {
                        idx = calls.len();
                        break;
                    }
                    _ => {
                        if c.accepted == 0 && remaining > 0 {
                            idx = calls.len(); // WriteZero
                            break;
                        }
                        remaining -= c.accepted.min(remaining);
                        if remaining == 0 {
                            break;
                        }
                    }
                }
            }
            group += 1;
        }
        found
    };
    // (the structural identification above is kept for the coverage statistics only: which inner write a fault hit.  The
    // verdict does not depend on how an implementation groups its inner writes - one call per code, both codes in one
    // call, a reset attempted after a failure - because the statement does not.)
    let mut fatal: Option<(usize, ErrorKind)> = None;
    for (i, c) in sh.calls.iter().enumerate() {
        let is_data = Some(i) == didx;
        let k = match c.step {
            Step::WouldBlock => Some(ErrorKind::WouldBlock),
            Step::Other => Some(ErrorKind::Other),
            Step::Interrupted if is_data => Some(ErrorKind::Interrupted),
            Step::Accept(0) if !is_data && !c.offered.is_empty() => Some(ErrorKind::WriteZero),
            _ => None,
        };
        if let Some(k) = k {
            fatal = Some((i, k));
            break;
        }
    }
    if let Some(st) = st {
        st.add("inner_write_calls", sh.calls.len() as u64);
        if let Some((i, _)) = fatal {
            st.arr("fault_hit_inner_write_index", i.min(7), 8);
        }
    }
    match ret {
        // success: the writer holds one complete frame around exactly the data bytes reported as accepted - whatever
        // happened on the way (a fault that was not reported must have been overcome, or the frame is incomplete)
        Ok(n) => {
            if n > data.len() {
                return Err(("c17:scripted:count".into(), format!("returned {n} for {} data bytes", data.len())));
            }
            check_framing(&sh.delivered, fgi, bgi, data, n).map_err(|(s, m)| {
                let steps: Vec<Step> = sh.calls.iter().map(|c| c.step).collect();
                (s.replace("c17:", "c17:scripted:"), format!("{m} (the call returned Ok({n}); inner writes answered {steps:?})"))
            })
        }
        // failure: some inner write must have failed that way (a writer that accepted zero bytes of a non-empty buffer
        // counts as WriteZero); an error out of nowhere - or of another kind than any injected one - is the library's own
        Err(e) => {
            let explained = sh.calls.iter().any(|c| match c.step {
                Step::Interrupted => e.kind() == ErrorKind::Interrupted,
                Step::WouldBlock => e.kind() == ErrorKind::WouldBlock,
                Step::Other => e.kind() == ErrorKind::Other,
                Step::Accept(0) => !c.offered.is_empty() && e.kind() == ErrorKind::WriteZero,
                _ => false,
            });
            if explained {
                return Ok(());
            }
            let steps: Vec<Step> = sh.calls.iter().map(|c| c.step).collect();
            if steps.iter().any(|s| matches!(s, Step::Interrupted | Step::WouldBlock | Step::Other | Step::Accept(0))) {
                Err(("c17:scripted:error-kind".into(), format!("the call returned Err({:?}), which none of the inner writes produced; they answered {steps:?}", e.kind())))
            } else {
                Err(("c17:scripted:spurious-error".into(), format!("returned Err({:?}) without any injected fault; calls: {steps:?}", e.kind())))
            }
        }
    }
}

pub const DATA: [&[u8]; 11] = [
    b"x",
    b"hello world",
    "\u{e9}\u{6f22}\u{1f600}".as_bytes(),
    b"tab\tnl\nend",
    b"",
    b"0123456789",
    b"m[31m;",
    b"a\x1b[1mb\xff",
    // pre-styled data that ends with its own reset
    b"warning\x1b[0m",
    b"w\x1b[m",
    b"ab\x1b[1mcd\x1b[0m\x1b[0m",
];

fn eval(r: Result<Result<(), (String, String)>, String>, st: &mut Stats, case: Case, enumerated: bool, nontrivial: bool) {
    st.eval();
    if nontrivial {
        if enumerated {
            st.nontrivial_enum();
        } else {
            let mut key = case.bytes.concat();
            for n in &case.nums {
                key.extend_from_slice(&n.to_le_bytes());
            }
            st.nontrivial_hash(hash64(&key));
        }
    }
    match r {
        Ok(Ok(())) => {}
        Ok(Err((sig, msg))) => st.viol(&sig, msg, case),
        Err(p) => st.viol("c17:panic", format!("panicked: {p}"), case),
    }
}

pub fn run(cfg: &Cfg) -> Stats {
    let (depth_all, depth_some, nrand) = match cfg.tier {
        Tier::Tiny => (1u32, 1u32, 20u64),
        Tier::Quick => (3, 4, 20_000),
        Tier::Thorough => (4, 5, 500_000),
    };
    let mut st = par(cfg, |shard, n| {
        let mut st = Stats::new();
        let mut k = 0u64;
        // fault-free: all 17x17 pairs x data x targets
        for fgi in 0..17 {
            for bgi in 0..17 {
                for (di, data) in DATA.iter().enumerate() {
                    for (ti, t) in TARGETS.iter().enumerate() {
                        k += 1;
                        if k % n != shard {
                            continue;
                        }
                        if *t == Target::File && di > 1 {
                            continue; // files are slow; two data samples per pair are enough for the trait impl
                        }
                        let case = Case::new("c17-plain").b(data).n(fgi as i64).n(bgi as i64).n(ti as i64);
                        let r = vcore::guarded(|| check_plain(fgi, bgi, data, *t));
                        eval(r, &mut st, case, true, fgi + bgi > 0);
                    }
                }
            }
        }
        // scripted: every pair x scripts to depth_all; 9 pairs x scripts to depth_some
        let mut digits = vec![];
        for fgi in 0..17usize {
            for bgi in 0..17usize {
                let deep = (fgi % 8 == 1) && (bgi % 8 == 0 || bgi == 5);
                let depth = if deep { depth_some } else { depth_all };
                let total = gen::enum_count(STEPS.len() as u64, depth);
                for si in 0..total {
                    k += 1;
                    if k % n != shard {
                        continue;
                    }
                    gen::enum_decode(si, STEPS.len() as u64, &mut digits);
                    let script: Vec<Step> = digits.iter().map(|d| STEPS[*d]).collect();
                    let data = DATA[(si as usize + fgi + bgi) % DATA.len()];
                    let mut case = Case::new("c17-scripted").b(data).n(fgi as i64).n(bgi as i64);
                    for s in &script {
                        case = case.n(s.code());
                    }
                    let r = vcore::guarded(|| check_scripted(fgi, bgi, data, &script, Some(&mut st)));
                    eval(r, &mut st, case, true, !script.is_empty());
                }
            }
        }
        // large data buffers (sizes around internal buffer sizes), every writer kind and a fault on a later inner write
        if cfg.tier != Tier::Tiny {
            for (zi, size) in [1023usize, 1024, 1025, 8191, 8192, 8193, 65536, 65537].iter().enumerate() {
                for pair in [(0usize, 3usize), (5, 0), (9, 14), (16, 16), (0, 0)] {
                    k += 1;
                    if k % n != shard {
                        continue;
                    }
                    let data: Vec<u8> = (0..*size).map(|j| if j % 97 == 96 { b'\n' } else { b'a' + (j % 26) as u8 }).collect();
                    for (ti, t) in TARGETS.iter().enumerate() {
                        let case = Case::new("c17-plain").b(&data).n(pair.0 as i64).n(pair.1 as i64).n(ti as i64);
                        let r = vcore::guarded(|| check_plain(pair.0, pair.1, &data, *t));
                        eval(r, &mut st, case, true, true);
                    }
                    for script in [&[Step::All, Step::All, Step::Accept(3)][..], &[Step::All, Step::Accept(1), Step::All, Step::Other], &[Step::All, Step::All, Step::All, Step::WouldBlock], &[Step::Accept(2), Step::All, Step::All, Step::Interrupted]] {
                        let mut case = Case::new("c17-scripted").b(&data).n(pair.0 as i64).n(pair.1 as i64);
                        for s in script {
                            case = case.n(s.code());
                        }
                        let r = vcore::guarded(|| check_scripted(pair.0, pair.1, &data, script, Some(&mut st)));
                        eval(r, &mut st, case, true, true);
                    }
                    let _ = zi;
                }
            }
        }
        // every data length up to 1100 bytes (and around 2 KiB / 4 KiB) for three colour pairs on every writer kind: a
        // staging buffer of any small size has its edge somewhere in here
        if cfg.tier != Tier::Tiny {
            for len in (0..=1100usize).chain(2040..=2056).chain(4088..=4104) {
                k += 1;
                if k % n != shard {
                    continue;
                }
                let data: Vec<u8> = (0..len).map(|j| if j % 61 == 60 { b'\n' } else { b'A' + (j % 26) as u8 }).collect();
                for pair in [(2usize, 0usize), (0, 13), (9, 16)] {
                    for (ti, t) in TARGETS.iter().enumerate() {
                        let case = Case::new("c17-plain").b(&data).n(pair.0 as i64).n(pair.1 as i64).n(ti as i64);
                        let r = vcore::guarded(|| check_plain(pair.0, pair.1, &data, *t));
                        eval(r, &mut st, case, true, true);
                    }
                }
            }
        }
        // sinks with room for 1 ..= 40 bytes per call (gathering in write_vectored)
        for cap in 1..=40usize {
            for (di, data) in DATA.iter().enumerate() {
                for pair in [(2usize, 0usize), (0, 13), (9, 16), (1, 1), (0, 0)] {
                    k += 1;
                    if k % n != shard {
                        continue;
                    }
                    let case = Case::new("c17-capped").b(data).n(pair.0 as i64).n(pair.1 as i64).n(cap as i64);
                    let r = vcore::guarded(|| check_capped(pair.0, pair.1, data, cap));
                    st.count("capped_sink_runs");
                    eval(r, &mut st, case, true, true);
                    let _ = di;
                }
            }
        }
        // standard-stream writer kinds (child processes, output captured from pipes) and the File kind after a failed call
        if cfg.tier != Tier::Tiny {
            let stdio_data: [&[u8]; 6] = [b"hello world", "\u{e9}\u{6f22}\u{1f600}".as_bytes(), b"caf\xe9.txt \xff\xfe|end", b"line\n", b"", b"a\x1b[1mb\xff"];
            for (ki, kind) in STDIO_KINDS.iter().enumerate() {
                for (di, data) in stdio_data.iter().enumerate() {
                    for (pi, pair) in [(0usize, 0usize), (2, 0), (0, 5), (10, 14), (16, 1), (8, 8)].iter().enumerate() {
                        k += 1;
                        if k % n != shard {
                            continue;
                        }
                        if cfg.tier == Tier::Quick && (di + pi + ki) % 2 == 1 {
                            continue;
                        }
                        let case = Case::new("c17-stdio").b(data).n(pair.0 as i64).n(pair.1 as i64).n(ki as i64);
                        let r = vcore::guarded(|| check_stdio(kind, pair.0, pair.1, data));
                        st.count("standard_stream_child_runs");
                        eval(r, &mut st, case, true, true);
                        if pi >= 1 && pi <= 2 && di < 3 {
                            let case = Case::new("c17-stdio-tls").b(data).n(pair.0 as i64).n(pair.1 as i64).n(ki as i64);
                            let r = vcore::guarded(|| check_stdio_tls(kind, pair.0, pair.1, data));
                            st.count("standard_stream_thread_local_destructor_runs");
                            eval(r, &mut st, case, true, true);
                        }
                        if pi < 2 && di < 2 {
                            let case = Case::new("c17-stdio-full").b(data).n(pair.0 as i64).n(pair.1 as i64).n(ki as i64);
                            let r = vcore::guarded(|| check_stdio_full(kind, pair.0, pair.1, data));
                            st.count("standard_stream_on_dev_full_runs");
                            eval(r, &mut st, case, true, true);
                        }
                    }
                }
            }
            // data lengths around 512 and 1024 bytes on the standard streams (std's own and any added staging buffer)
            for (ki, kind) in STDIO_KINDS.iter().enumerate() {
                for len in (500..=516usize).chain(1020..=1028) {
                    k += 1;
                    if k % n != shard {
                        continue;
                    }
                    if cfg.tier == Tier::Quick && (len + ki) % 2 == 1 {
                        continue;
                    }
                    let data: Vec<u8> = (0..len).map(|j| b'a' + (j % 26) as u8).collect();
                    let case = Case::new("c17-stdio").b(&data).n(2).n(0).n(ki as i64);
                    let r = vcore::guarded(|| check_stdio(kind, 2, 0, &data));
                    st.count("standard_stream_child_runs");
                    eval(r, &mut st, case, true, true);
                }
            }
            // a line break followed by a long tail without one (std's line-buffered stdout takes such a buffer only in
            // part): the count returned is what the stream accepted and the frame closes around exactly that
            for (ki, kind) in STDIO_KINDS.iter().enumerate() {
                for tail in [900usize, 1100, 3000, 9000] {
                    k += 1;
                    if k % n != shard {
                        continue;
                    }
                    let mut data: Vec<u8> = b"first line\nsecond ".to_vec();
                    data.extend((0..tail).map(|j| b'a' + (j % 26) as u8));
                    let case = Case::new("c17-stdio").b(&data).n(2).n(12).n(ki as i64);
                    let r = vcore::guarded(|| check_stdio(kind, 2, 12, &data));
                    st.count("standard_stream_child_runs");
                    eval(r, &mut st, case, true, true);
                }
            }
            // a writer whose own write performs a coloured write
            for (di, data) in DATA.iter().enumerate() {
                for pair in [(0usize, 0usize), (3, 1), (0, 9), (12, 0), (5, 5)] {
                    k += 1;
                    if k % n != shard {
                        continue;
                    }
                    let case = Case::new("c17-nested").b(data).n(pair.0 as i64).n(pair.1 as i64).n(di as i64);
                    let r = vcore::guarded(|| check_nested(pair.0, pair.1, data));
                    st.count("nested_coloured_writes");
                    eval(r, &mut st, case, true, true);
                }
            }
            // several threads through the process-wide handles
            for (ki, kind) in ["stdout", "stderr"].iter().enumerate() {
                for threads in [2u64, 8] {
                    k += 1;
                    if k % n != shard {
                        continue;
                    }
                    let per = if cfg.tier == Tier::Quick { 1500 } else { 20_000 };
                    st.eval();
                    st.nontrivial_enum();
                    if let Err((sig, msg)) = check_stdio_mt(kind, threads, per, &mut st) {
                        st.viol(&sig, msg, Case::new("c17-mt").n(ki as i64).n(threads as i64).n(per as i64));
                    }
                }
            }
            for (di, data) in DATA.iter().enumerate() {
                for pair in [(0usize, 0usize), (3, 1), (0, 9), (12, 0)] {
                    k += 1;
                    if k % n != shard {
                        continue;
                    }
                    let case = Case::new("c17-fileseq").b(data).n(pair.0 as i64).n(pair.1 as i64).n(di as i64);
                    let r = vcore::guarded(|| check_file_sequence(pair.0, pair.1, data));
                    st.count("file_writes_after_a_failed_call");
                    eval(r, &mut st, case, true, true);
                }
            }
        }
        // random data
        let mut i = shard;
        while i < nrand {
            let mut rng = Rng::new(cfg.seed, 0xC17_0000_0000 + i);
            let mut data = vec![];
            gen::push_text(&mut rng, &mut data, 40);
            if rng.chance(1, 5) {
                data = gen::gen_stream(&mut rng, 200, false);
            }
            if data.first() == Some(&0x1b) {
                data.insert(0, b'x'); // keep the data write distinguishable from a code write in the call log
            }
            let (fgi, bgi) = (rng.below(17) as usize, rng.below(17) as usize);
            let script: Vec<Step> = (0..rng.below(5)).map(|_| STEPS[rng.below(8) as usize]).collect();
            let mut case = Case::new("c17-scripted").b(&data).n(fgi as i64).n(bgi as i64);
            for s in &script {
                case = case.n(s.code());
            }
            if i < 3 {
                st.sample(5, || {
                    let mut o = J::obj();
                    o.set("origin", J::s("random data, random script"));
                    o.set("data", J::s(show(&data[..data.len().min(80)])));
                    o.set("fg_bg", J::s(format!("{:?}/{:?}", color(fgi), color(bgi))));
                    o.set("script", J::s(format!("{script:?}")));
                    o
                });
            }
            let r = vcore::guarded(|| check_scripted(fgi, bgi, &data, &script, Some(&mut st)));
            eval(r, &mut st, case, false, true);
            let t = TARGETS[rng.below(3) as usize % 4];
            let t = if t == Target::File { Target::Vec } else { t };
            let case = Case::new("c17-plain").b(&data).n(fgi as i64).n(bgi as i64).n(TARGETS.iter().position(|x| *x == t).unwrap() as i64);
            let r = vcore::guarded(|| check_plain(fgi, bgi, &data, t));
            eval(r, &mut st, case, false, true);
            i += n;
        }
        st
    });
    st.sample(24, || {
        let mut o = J::obj();
        o.set("origin", J::s("exhaustive pairs"));
        let mut v: Vec<u8> = vec![];
        let _ = v.write_colored(color(2), color(13), b"hello world");
        o.set("fg_bg", J::s("Red / BrightBlue"));
        o.set("data", J::s("hello world"));
        o.set("writer_received", J::s(show(&v)));
        o
    });
    st.exhaustive_parts.push("all 17x17 (fg,bg) pairs x 11 data samples x {Vec, File, &mut dyn Write, Box<dyn Write>} without faults".into());
    st.notes.push("standard-stream kinds (Stdout, StdoutLock, Stderr, StderrLock) run in child processes with both pipes captured, data including invalid UTF-8; the File kind is also written after a failed call on a read-only handle".into());
    st.exhaustive_parts.push(format!("all 17x17 pairs x all inner-writer scripts of length <= {depth_all} (length <= {depth_some} for 6 pairs) over 8 step kinds"));
    st
}

pub fn replay(case: &Case) -> Result<String, Viol> {
    let data = case.bytes.first().cloned().unwrap_or_default();
    let fgi = case.nums.first().copied().unwrap_or(0) as usize % 17;
    let bgi = case.nums.get(1).copied().unwrap_or(0) as usize % 17;
    if case.kind == "c17-mt" {
        let g = |i: usize| case.nums.get(i).copied().unwrap_or(0);
        let mut st = Stats::new();
        let kind = if g(0) == 0 { "stdout" } else { "stderr" };
        // schedules vary: a few attempts
        for _ in 0..5 {
            if let Err((sig, msg)) = check_stdio_mt(kind, g(1).max(2) as u64, g(2).max(100) as u64, &mut st) {
                return Err(Viol { case: case.clone(), msg, sig });
            }
        }
        return Ok("frames of concurrent writers were contiguous in 5 runs".into());
    }
    let r = if case.kind == "c17-stdio-full" {
        let kind = STDIO_KINDS[case.nums.get(2).copied().unwrap_or(0) as usize % 4];
        vcore::guarded(|| check_stdio_full(kind, fgi, bgi, &data))
    } else if case.kind == "c17-capped" {
        let cap = case.nums.get(2).copied().unwrap_or(1).max(1) as usize;
        vcore::guarded(|| check_capped(fgi, bgi, &data, cap))
    } else if case.kind == "c17-stdio-tls" {
        let kind = STDIO_KINDS[case.nums.get(2).copied().unwrap_or(0) as usize % 4];
        vcore::guarded(|| check_stdio_tls(kind, fgi, bgi, &data))
    } else if case.kind == "c17-stdio" {
        let kind = STDIO_KINDS[case.nums.get(2).copied().unwrap_or(0) as usize % 4];
        vcore::guarded(|| check_stdio(kind, fgi, bgi, &data))
    } else if case.kind == "c17-nested" {
        vcore::guarded(|| check_nested(fgi, bgi, &data))
    } else if case.kind == "c17-fileseq" {
        vcore::guarded(|| check_file_sequence(fgi, bgi, &data))
    } else if case.kind == "c17-plain" {
        let t = TARGETS[case.nums.get(2).copied().unwrap_or(0) as usize % 4];
        vcore::guarded(|| check_plain(fgi, bgi, &data, t))
    } else {
        let script: Vec<Step> = case.nums.iter().skip(2).map(|c| STEPS[*c as usize % 8]).collect();
        vcore::guarded(|| check_scripted(fgi, bgi, &data, &script, None))
    };
    match r {
        Ok(Ok(())) => Ok("coloured write is framed correctly".into()),
        Ok(Err((sig, msg))) => Err(Viol { case: case.clone(), msg, sig }),
        Err(p) => Err(Viol { case: case.clone(), msg: format!("panicked: {p}"), sig: "c17:panic".into() }),
    }
}
