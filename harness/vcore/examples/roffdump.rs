fn main() {
    let inputs = [
        "\x1b[0;1;31mbold red\x1b[0;3;44mitalic on blue\x1b[0mplain .dot 'quote \\back -hy\n.newline-dot\n'q",
        "plain",
        "\x1b[0;91mbright\x1b[0m",
        "a\n\n.b\n",
        "\x1b[0;1;3mbi\x1b[0;2mfaint",
        ".lead",
        "\x1b[0;31m\x1b[0;32mgreen after empty",
        "tab\there \\fB x \\& y",
    ];
    for i in inputs {
        let r = anstyle_roff::to_roff(i);
        println!("INPUT {:?}\n--- to_roff()\n{}\n--- render()\n{}\n=====", i, r.to_roff(), r.render());
    }
}
