//! C06 — the strip stream keeps the `Write` contract under short writes and errors.
use crate::{par, Case, Cfg, Stats, Tier, Viol};
use refmodel::gen;
use refmodel::json::{show, J};
use refmodel::rng::{hash64, Rng};
use refmodel::vt::{RefStrip, N_SLOTS};
use std::cell::RefCell;
use std::io::{self, ErrorKind, IoSlice, Write};
use std::rc::Rc;

#[derive(Clone, Copy, Debug, PartialEq, Eq)]
pub enum Step {
    Accept(u8),
    All,
    Interrupted,
    WouldBlock,
    Other,
}
pub const STEPS: [Step; 8] = [Step::Accept(0), Step::Accept(1), Step::Accept(2), Step::Accept(3), Step::All, Step::Interrupted, Step::WouldBlock, Step::Other];

impl Step {
    pub fn code(self) -> i64 {
        STEPS.iter().position(|s| *s == self).unwrap() as i64
    }
    pub fn is_fault(self) -> bool {
        matches!(self, Step::Interrupted | Step::WouldBlock | Step::Other)
    }
}

#[derive(Debug, Clone)]
pub struct InnerCall {
    pub offered: Vec<u8>,
    pub step: Step,
    pub accepted: usize,
}

#[derive(Default, Debug)]
pub struct Shared {
    pub script: Vec<Step>,
    pub pos: usize,
    pub delivered: Vec<u8>,
    pub calls: Vec<InnerCall>,
    pub flushes: usize,
    /// the writer brings its own `write_all` that does not retry on Interrupted but hands it to its caller
    pub raw_write_all: bool,
}

/// Inner writer whose n-th `write` follows a script; once the script is exhausted it accepts everything.
pub struct Scripted(pub Rc<RefCell<Shared>>);

impl Write for Scripted {
    fn write(&mut self, buf: &[u8]) -> io::Result<usize> {
        let mut s = self.0.borrow_mut();
        let step = s.script.get(s.pos).copied().unwrap_or(Step::All);
        s.pos += 1;
        let r = match step {
            Step::Accept(k) => Ok((k as usize).min(buf.len())),
            Step::All => Ok(buf.len()),
            Step::Interrupted => Err(io::Error::new(ErrorKind::Interrupted, "injected")),
            Step::WouldBlock => Err(io::Error::new(ErrorKind::WouldBlock, "injected")),
            Step::Other => Err(io::Error::new(ErrorKind::Other, "injected")),
        };
        let n = *r.as_ref().unwrap_or(&0);
        s.delivered.extend_from_slice(&buf[..n]);
        s.calls.push(InnerCall { offered: buf.to_vec(), step, accepted: n });
        r
    }
    fn flush(&mut self) -> io::Result<()> {
        self.0.borrow_mut().flushes += 1;
        Ok(())
    }
    fn write_all(&mut self, mut buf: &[u8]) -> io::Result<()> {
        let raw = self.0.borrow().raw_write_all;
        while !buf.is_empty() {
            match self.write(buf) {
                Ok(0) => return Err(io::Error::new(ErrorKind::WriteZero, "failed to write whole buffer")),
                Ok(n) => buf = &buf[n..],
                Err(ref e) if !raw && e.kind() == ErrorKind::Interrupted => {}
                Err(e) => return Err(e),
            }
        }
        Ok(())
    }
}

/// formatted writes whose format string has no run-time arguments (`Arguments::as_str()` is `Some`)
pub const LITERALS: [&str; 9] = [
    "warning: unused variable\n",
    "\x1b[1;33mwarning\x1b[0m: unused \x1b[4mvariable\x1b[0m\n",
    "\x1b[32mok\x1b[m",
    "a\x1b]0;t\x07b\u{e9}c\x1b[",
    "x",
    "\x1b[31m\u{6f22}\u{5b57}\x1b[0m \u{1f600} done\r\n",
    // literals that only make sense as the continuation of an earlier call
    "m",
    ";31mb",
    "window title",
];

/// (written first with write_all, literal index, written afterwards with write_all): the literal completes or sits inside
/// a sequence that an earlier call began
pub const LITERAL_CONTINUATIONS: [(&str, usize, &str); 6] = [
    ("bold\x1b[1", 6, "hello\n"),
    ("a\x1b[1", 7, "\x1b[0mc"),
    ("\x1b]0;", 8, "\x07shown"),
    ("x\x1b[38;5;1", 6, "y"),
    ("\x1bP1$r", 8, "\x1b\\z"),
    ("plain ", 8, " text\n"),
];

pub fn write_literal(w: &mut dyn Write, idx: usize) -> io::Result<()> {
    match idx {
        0 => write!(w, "warning: unused variable\n"),
        1 => write!(w, "\x1b[1;33mwarning\x1b[0m: unused \x1b[4mvariable\x1b[0m\n"),
        2 => write!(w, "\x1b[32mok\x1b[m"),
        3 => write!(w, "a\x1b]0;t\x07b\u{e9}c\x1b["),
        4 => write!(w, "x"),
        5 => write!(w, "\x1b[31m\u{6f22}\u{5b57}\x1b[0m \u{1f600} done\r\n"),
        6 => write!(w, "m"),
        7 => write!(w, ";31mb"),
        _ => write!(w, "window title"),
    }
}

#[derive(Clone, Copy, Debug, PartialEq, Eq)]
pub enum Api {
    Write,
    WriteAll,
    WriteVectored,
    WriteFmt,
    /// `write!(stream, "<literal>")`: the input must be LITERALS[k]
    WriteFmtLiteral,
}
pub const APIS: [Api; 4] = [Api::Write, Api::WriteAll, Api::WriteVectored, Api::WriteFmt];
pub const ALL_APIS: [Api; 5] = [Api::Write, Api::WriteAll, Api::WriteVectored, Api::WriteFmt, Api::WriteFmtLiteral];

#[derive(Clone, Copy, Debug, PartialEq, Eq)]
pub enum Wrap {
    Strip,
    AutoNever,
}

enum Stream {
    Strip(anstream::StripStream<Box<dyn Write>>),
    Auto(anstream::AutoStream<Box<dyn Write>>),
}

impl Stream {
    fn w(&mut self) -> &mut dyn Write {
        match self {
            Stream::Strip(s) => s,
            Stream::Auto(s) => s,
        }
    }
}

struct Frag<'a>(&'a str);
impl std::fmt::Display for Frag<'_> {
    fn fmt(&self, f: &mut std::fmt::Formatter<'_>) -> std::fmt::Result {
        f.write_str(self.0)
    }
}

pub struct Run<'a> {
    pub input: &'a [u8],
    pub script: &'a [Step],
    pub api: Api,
    pub wrap: Wrap,
    /// how the caller splits the input over calls (cut positions), in addition to what the protocol does
    pub cuts: &'a [usize],
    pub probe: &'a [u8],
    /// inner writer with its own write_all that surfaces Interrupted
    pub raw_write_all: bool,
}

fn kind_of(step: Step) -> Option<ErrorKind> {
    match step {
        Step::Interrupted => Some(ErrorKind::Interrupted),
        Step::WouldBlock => Some(ErrorKind::WouldBlock),
        Step::Other => Some(ErrorKind::Other),
        _ => None,
    }
}

/// Execute one history and check it call by call.  Err((sig, msg)) on the first broken rule.
/// A value whose Display keeps writing its pieces after one of them failed and reports the first failure at the end.
struct Eager<'a>(&'a [&'a str]);

impl std::fmt::Display for Eager<'_> {
    fn fmt(&self, f: &mut std::fmt::Formatter<'_>) -> std::fmt::Result {
        let mut r = Ok(());
        for p in self.0 {
            r = r.and(f.write_str(p));
        }
        r
    }
}

/// The error a formatted write returns is one of the inner writer's fatal errors, also when later pieces of the same
/// call are accepted again (only the kind is compared: what such a value delivers after the failure is its own business).
pub fn check_eager_display(script: &[Step], wrap: Wrap) -> Result<(), (String, String)> {
    let shared = Rc::new(RefCell::new(Shared { script: script.to_vec(), ..Default::default() }));
    let boxed: Box<dyn Write> = Box::new(Scripted(shared.clone()));
    let mut stream = match wrap {
        Wrap::Strip => Stream::Strip(anstream::StripStream::new(boxed)),
        Wrap::AutoNever => Stream::Auto(anstream::AutoStream::never(boxed)),
    };
    let r = write!(stream.w(), "{}", Eager(&["ab\x1b[1m", "cd", "\x1b[0mef", "g"]));
    let sh = shared.borrow();
    // (several pieces may fail in one call: any of the inner writer's fatal errors is an acceptable report)
    let fatal: Vec<ErrorKind> = sh
        .calls
        .iter()
        .filter_map(|c| match c.step {
            Step::WouldBlock => Some(ErrorKind::WouldBlock),
            Step::Other => Some(ErrorKind::Other),
            Step::Accept(0) if !c.offered.is_empty() => Some(ErrorKind::WriteZero),
            _ => None,
        })
        .collect();
    match r {
        Ok(()) if fatal.is_empty() => Ok(()),
        Err(e) if fatal.contains(&e.kind()) => Ok(()),
        Ok(()) => Err((format!("c06:{wrap:?}/WriteFmtEager:error-turned-into-success"), format!("script {script:?}: the inner writer failed with {fatal:?} but the formatted write returned Ok"))),
        Err(e) => Err((format!("c06:{wrap:?}/WriteFmtEager:error-kind"), format!("script {script:?}: returned Err({:?}) but the inner writer's fatal faults were {fatal:?}", e.kind()))),
    }
}

pub fn run_history(run: &Run<'_>, st: Option<&mut Stats>) -> Result<(), (String, String)> {
    let shared = Rc::new(RefCell::new(Shared { script: run.script.to_vec(), raw_write_all: run.raw_write_all, ..Default::default() }));
    let boxed: Box<dyn Write> = Box::new(Scripted(shared.clone()));
    let mut stream = match run.wrap {
        Wrap::Strip => Stream::Strip(anstream::StripStream::new(boxed)),
        Wrap::AutoNever => Stream::Auto(anstream::AutoStream::never(boxed)),
    };
    let tag = format!("{:?}/{:?}", run.wrap, run.api);
    let mut refs = RefStrip::new();
    let mut expected_total: Vec<u8> = vec![];
    let mut short_returns = 0u64;
    let mut errors_seen = 0u64;
    let mut first_fault: Option<(Step, usize)> = None;
    let chunks = gen::split_at_cuts(run.input, run.cuts);
    let mut aborted = false;

    'chunks: for chunk in chunks {
        match run.api {
            Api::Write | Api::WriteVectored => {
                let mut rest: &[u8] = chunk;
                let mut guard = 0usize;
                while !rest.is_empty() {
                    guard += 1;
                    if guard > 4 * chunk.len() + run.script.len() + 16 {
                        return Err((format!("c06:{tag}:no-progress"), format!("the standard retry loop made no progress after {guard} calls")));
                    }
                    let before_len = shared.borrow().delivered.len();
                    let before_calls = shared.borrow().calls.len();
                    let slot_before = refs.slot();
                    let r = if run.api == Api::Write {
                        stream.w().write(rest)
                    } else {
                        // empty slices around and inside: the first non-empty one is what may be written
                        // (three non-empty slices when the data is long enough)
                        let (m1, m2) = (rest.len() / 3, 2 * rest.len() / 3);
                        let bufs = [IoSlice::new(&[]), IoSlice::new(&rest[..m1]), IoSlice::new(&rest[m1..m2]), IoSlice::new(&[]), IoSlice::new(&rest[m2..])];
                        stream.w().write_vectored(&bufs)
                    };
                    let sh = shared.borrow();
                    let during = sh.delivered[before_len..].to_vec();
                    let faults: Vec<Step> = sh.calls[before_calls..].iter().map(|c| c.step).filter(|s| s.is_fault()).collect();
                    if first_fault.is_none() {
                        if let Some(c) = sh.calls[before_calls..].iter().find(|c| c.step.is_fault() || c.accepted < c.offered.len()) {
                            first_fault = Some((c.step, slot_before));
                        }
                    }
                    drop(sh);
                    match r {
                        Ok(n) => {
                            if n > rest.len() {
                                return Err((format!("c06:{tag}:count-too-large"), format!("write returned {n} for a buffer of {} bytes", rest.len())));
                            }
                            let mut want = vec![];
                            let mut trial = refs.clone();
                            trial.feed(&rest[..n], &mut want);
                            if during != want {
                                return Err((
                                    format!("c06:{tag}:count-inconsistent"),
                                    format!(
                                        "write({:?}) returned Ok({n}); the inner writer accepted {:?} during the call but the stripped form of the {n} consumed bytes is {:?}",
                                        show(rest),
                                        show(&during),
                                        show(&want)
                                    ),
                                ));
                            }
                            refs = trial;
                            expected_total.extend_from_slice(&want);
                            if n < rest.len() {
                                short_returns += 1;
                            }
                            if n == 0 {
                                // Ok(0) on a non-empty buffer: the protocol (write_all) stops with WriteZero
                                aborted = true;
                                break 'chunks;
                            }
                            rest = &rest[n..];
                        }
                        Err(e) => {
                            errors_seen += 1;
                            if !during.is_empty() {
                                return Err((
                                    format!("c06:{tag}:error-after-delivery"),
                                    format!("write({:?}) returned Err({:?}) although the inner writer had accepted {:?} during the call", show(rest), e.kind(), show(&during)),
                                ));
                            }
                            match faults.last().and_then(|s| kind_of(*s)) {
                                Some(k) if k == e.kind() => {}
                                other => {
                                    return Err((format!("c06:{tag}:error-kind"), format!("write returned Err({:?}) but the injected fault was {:?}", e.kind(), other)));
                                }
                            }
                            // the caller retries the same buffer (Interrupted: always; WouldBlock/Other: a later retry is legitimate
                            // because an error means nothing of the buffer was written)
                        }
                    }
                }
            }
            Api::WriteAll | Api::WriteFmt | Api::WriteFmtLiteral => {
                let before_len = shared.borrow().delivered.len();
                let before_calls = shared.borrow().calls.len();
                let slot_before = refs.slot();
                let r = if run.api == Api::WriteAll {
                    stream.w().write_all(chunk)
                } else if run.api == Api::WriteFmtLiteral {
                    // chunks that are not one of the literals travel through write_all
                    match LITERALS.iter().position(|l| l.as_bytes() == chunk) {
                        Some(k) => write_literal(stream.w(), k),
                        None => stream.w().write_all(chunk),
                    }
                } else {
                    match std::str::from_utf8(chunk) {
                        Ok(s) => {
                            // split into up to 4 fragments at char boundaries
                            let mut idx: Vec<usize> = vec![s.len() / 4, s.len() / 2, 3 * s.len() / 4];
                            for i in idx.iter_mut() {
                                while !s.is_char_boundary(*i) {
                                    *i -= 1;
                                }
                            }
                            let (a, b, c, d) = (&s[..idx[0]], &s[idx[0]..idx[1]], &s[idx[1]..idx[2]], &s[idx[2]..]);
                            // the last character travels as a `char` argument (it reaches the stream through write_char)
                            match d.chars().last() {
                                Some(last) => write!(stream.w(), "{}{}{b}{}{}{last}", Frag(a), "", Frag(c), Frag(&d[..d.len() - last.len_utf8()]), b = Frag(b)),
                                None => write!(stream.w(), "{}{}{b}{}{}", Frag(a), "", Frag(c), Frag(d), b = Frag(b)),
                            }
                        }
                        Err(_) => stream.w().write_all(chunk),
                    }
                };
                let sh = shared.borrow();
                let during = sh.delivered[before_len..].to_vec();
                let calls = &sh.calls[before_calls..];
                let raw = run.raw_write_all;
                let fatal: Option<ErrorKind> = calls.iter().find_map(|c| match c.step {
                    Step::WouldBlock => Some(ErrorKind::WouldBlock),
                    Step::Other => Some(ErrorKind::Other),
                    Step::Interrupted if raw => Some(ErrorKind::Interrupted),
                    Step::Accept(0) if !c.offered.is_empty() => Some(ErrorKind::WriteZero),
                    _ => None,
                });
                if first_fault.is_none() {
                    if let Some(c) = calls.iter().find(|c| c.step.is_fault() || c.accepted < c.offered.len()) {
                        first_fault = Some((c.step, slot_before));
                    }
                }
                drop(sh);
                let mut want = vec![];
                let mut trial = refs.clone();
                trial.feed(chunk, &mut want);
                match r {
                    Ok(()) => {
                        if let Some(k) = fatal {
                            return Err((format!("c06:{tag}:error-turned-into-success"), format!("the inner writer failed with {k:?} but the call returned Ok")));
                        }
                        if during != want {
                            return Err((format!("c06:{tag}:delivery"), format!("returned Ok but delivered {:?}, expected {:?}", show(&during), show(&want))));
                        }
                        refs = trial;
                        expected_total.extend_from_slice(&want);
                    }
                    Err(e) => {
                        errors_seen += 1;
                        match fatal {
                            Some(k) if k == e.kind() => {}
                            other => {
                                return Err((format!("c06:{tag}:error-kind"), format!("returned Err({:?}) but the inner writer's fatal fault was {:?}", e.kind(), other)));
                            }
                        }
                        if !want.starts_with(&during) {
                            return Err((format!("c06:{tag}:delivery-not-prefix"), format!("failed call delivered {:?}, which is not a prefix of {:?}", show(&during), show(&want))));
                        }
                        expected_total.extend_from_slice(&during);
                        aborted = true;
                        break 'chunks;
                    }
                }
            }
        }
    }
    let sh = shared.borrow();
    if sh.delivered != expected_total {
        return Err((format!("c06:{tag}:total"), format!("inner writer received {:?} in total, expected {:?}", show(&sh.delivered), show(&expected_total))));
    }
    drop(sh);
    if !aborted {
        // everything was consumed: the delivered bytes are the stripped form of the whole input
        let want = refmodel::vt::ref_strip(run.input);
        if expected_total != want {
            return Err((format!("c06:{tag}:total"), format!("delivered {:?}, stripped form of the input is {:?}", show(&expected_total), show(&want))));
        }
        // probe the stream state (script is exhausted or not: make sure the inner writer now accepts everything)
        shared.borrow_mut().script.clear();
        let before_len = shared.borrow().delivered.len();
        if let Err(e) = stream.w().write_all(run.probe) {
            return Err((format!("c06:{tag}:probe-error"), format!("probe write failed: {e}")));
        }
        let mut want = vec![];
        refs.feed(run.probe, &mut want);
        let got = shared.borrow().delivered[before_len..].to_vec();
        if got != want {
            return Err((
                format!("c06:{tag}:state-after-history"),
                format!("after the history the suffix {:?} is stripped to {:?}, expected {:?}: the stream's parser state does not correspond to the bytes reported as consumed", show(run.probe), show(&got), show(&want)),
            ));
        }
    }
    if let Some(st) = st {
        st.add("ok_returns_with_0_lt_n_lt_len", short_returns);
        st.add("errors_returned_to_caller", errors_seen);
        st.add("inner_write_calls", shared.borrow().calls.len() as u64);
        if aborted {
            st.count("histories_stopped_by_fatal_error_or_write_zero");
        } else {
            st.count("histories_completed_and_probed");
        }
        if let Some((step, slot)) = first_fault {
            st.arr("first_fault_kind", step.code() as usize, STEPS.len());
            st.arr("parser_state_at_call_with_first_fault", slot, N_SLOTS);
        }
    }
    Ok(())
}

pub const SHORT_INPUTS: [&str; 48] = [
    "ab\x1b[",
    "a\x1b[1mb",
    "ab\x1b[31mcd\x1b[0mef",
    "\u{e9}\x1b[m\u{fc}",
    "\x1b[31m",
    "a\nb\x1b[3\n2mX",
    "x\x1b]0;t\x07y",
    "\x1bPq\x1b\\z",
    "a\x18b",
    "\u{1f600}\x1b[1m\u{1f600}",
    "ab",
    "a",
    "\x1b",
    "a\x1b",
    "\x1b[38;5;1mred\x1b[m\n",
    "l1\r\nl2\x1b[K",
    "\t\x1b[2Jx",
    "a\x7fb",
    "a\x00b\x07c",
    "\x1b[1mA\x1b[2mB\x1b[3mC",
    "ab\x1b[1",
    "\u{e9}",
    "\u{80}x",
    "\u{2705}\x1b[m\u{2705}",
    "abc\x1b[mdef\x1b[mghi",
    "\x1b[mabc",
    "abc\x1b[m",
    "a\x1b[\tb",
    "\x1b]8;;u\x1b\\L\x1b]8;;\x1b\\",
    "x\x1b^pm\x1b\\y",
    "\x1b(Bq",
    "q\x1b#8r",
    "\x1b[?25lz\x1b[?25h",
    "\x1b[1;2;3;4;5;6;7;8;9mw",
    "abcdefgh",
    "a\x1bb\x1bc",
    "\x1b\x1b\x1b[mx",
    "\r\n\r\n",
    "a\x1b[m\u{e9}\x1b[m\u{6f22}",
    "\x1b[4:3mu\x1b[4:0m",
    "\x07\x08\x0bz",
    "a\x1aZ",
    "\x1bP1$r0m\x1b\\k",
    "ab\x1b]0;x",
    "\x1b]0;x\x07ab",
    "a\x0cb\x0bc",
    "\u{71c}\x1b[m",
    "mm\x1b[mm[m",
];

pub const PROBES: [&[u8]; 10] = crate::c03::PROBES_BYTES;

fn case_of(run: &Run<'_>) -> Case {
    let mut c = Case::new("c06").b(run.input).b(run.probe);
    c = c.n(ALL_APIS.iter().position(|a| *a == run.api).unwrap() as i64);
    c = c.n(if run.wrap == Wrap::Strip { 0 } else { 1 } + if run.raw_write_all { 2 } else { 0 });
    c = c.n(run.script.len() as i64);
    for s in run.script {
        c = c.n(s.code());
    }
    for x in run.cuts {
        c = c.n(*x as i64);
    }
    c
}

fn eval(run: &Run<'_>, st: &mut Stats, enumerated: bool) {
    st.eval();
    let nontrivial = run.script.iter().any(|s| *s != Step::All) && run.input.iter().any(|b| *b == 0x1b);
    if nontrivial {
        if enumerated {
            st.nontrivial_enum();
        } else {
            let c = case_of(run);
            let mut key = run.input.to_vec();
            for n in &c.nums {
                key.extend_from_slice(&n.to_le_bytes());
            }
            st.nontrivial_hash(hash64(&key));
        }
    }
    match crate::guarded(|| run_history(run, Some(st))) {
        Ok(Ok(())) => {}
        Ok(Err((sig, msg))) => st.viol(&sig, format!("script {:?} cuts {:?}: {msg}", run.script, run.cuts), case_of(run)),
        Err(p) => st.viol(&format!("c06:{:?}/{:?}:panic", run.wrap, run.api), format!("script {:?}: panicked: {p}", run.script), case_of(run)),
    }
}

pub fn run(cfg: &Cfg) -> Stats {
    let (depth, ninputs, nlong, maxlen) = match cfg.tier {
        Tier::Tiny => (2u32, 6usize, 20u64, 200usize),
        Tier::Quick => (4, 48, 20_000, 1024),
        Tier::Thorough => (6, 48, 500_000, 4096),
    };
    let mut st = par(cfg, |shard, n| {
        let mut st = Stats::new();
        // exhaustive scripts to `depth` x short inputs x APIs x wrappers
        let nscripts = gen::enum_count(STEPS.len() as u64, depth);
        let total = nscripts * ninputs as u64;
        let mut digits = vec![];
        let mut idx = shard;
        while idx < total {
            let input = SHORT_INPUTS[(idx % ninputs as u64) as usize].as_bytes();
            gen::enum_decode(idx / ninputs as u64, STEPS.len() as u64, &mut digits);
            let script: Vec<Step> = digits.iter().map(|d| STEPS[*d]).collect();
            for (ai, api) in APIS.iter().enumerate() {
                for wrap in [Wrap::Strip, Wrap::AutoNever] {
                    if wrap == Wrap::AutoNever && !(*api == Api::Write || *api == Api::WriteFmt) {
                        continue;
                    }
                    let probe = PROBES[((idx as usize) + ai) % PROBES.len()];
                    let run = Run { input, script: &script, api: *api, wrap, cuts: &[], probe, raw_write_all: false };
                    eval(&run, &mut st, true);
                    // an inner writer whose own write_all hands Interrupted to its caller (only differs when the script
                    // interrupts and the API goes through the inner write_all)
                    if wrap == Wrap::Strip && (*api == Api::WriteAll || *api == Api::WriteFmt) && script.contains(&Step::Interrupted) {
                        let run = Run { input, script: &script, api: *api, wrap, cuts: &[], probe, raw_write_all: true };
                        eval(&run, &mut st, true);
                    }
                    // the same history with the caller handing the input over in two calls, the cut position rotating
                    // with the script index so that calls start in every parser state (mid-sequence, mid-character)
                    if input.len() >= 2 && wrap == Wrap::Strip && *api != Api::WriteFmt {
                        let cut = 1 + ((idx / ninputs as u64) as usize + ai) % (input.len() - 1);
                        let cuts = [cut];
                        let run = Run { input, script: &script, api: *api, wrap, cuts: &cuts, probe, raw_write_all: false };
                        eval(&run, &mut st, true);
                    }
                }
            }
            idx += n;
        }
        // formatted writes without run-time arguments: every literal x every script
        let total_l = nscripts * LITERALS.len() as u64;
        let mut idx = shard;
        while idx < total_l {
            let lit = LITERALS[(idx % LITERALS.len() as u64) as usize].as_bytes();
            gen::enum_decode(idx / LITERALS.len() as u64, STEPS.len() as u64, &mut digits);
            let script: Vec<Step> = digits.iter().map(|d| STEPS[*d]).collect();
            for wrap in [Wrap::Strip, Wrap::AutoNever] {
                for raw in [false, true] {
                    if raw && !script.contains(&Step::Interrupted) {
                        continue;
                    }
                    let run = Run { input: lit, script: &script, api: Api::WriteFmtLiteral, wrap, cuts: &[], probe: PROBES[idx as usize % PROBES.len()], raw_write_all: raw };
                    eval(&run, &mut st, true);
                }
            }
            idx += n;
        }
        // a Display value that goes on after a failed piece: every script
        let mut idx = shard;
        while idx < nscripts {
            gen::enum_decode(idx, STEPS.len() as u64, &mut digits);
            let script: Vec<Step> = digits.iter().map(|d| STEPS[*d]).collect();
            for wrap in [Wrap::Strip, Wrap::AutoNever] {
                st.eval();
                st.nontrivial_enum();
                match crate::guarded(|| check_eager_display(&script, wrap)) {
                    Ok(Ok(())) => {}
                    Ok(Err((sig, msg))) => st.viol(&sig, msg, Case::new("c06-eager").n(wrap as i64).n(idx as i64)),
                    Err(p) => st.viol("c06:panic", format!("panicked: {p}"), Case::new("c06-eager").n(wrap as i64).n(idx as i64)),
                }
            }
            idx += n;
        }
        // a literal formatted write that continues what an earlier call began: every case x every script
        let total_c = nscripts * LITERAL_CONTINUATIONS.len() as u64;
        let mut idx = shard;
        while idx < total_c {
            let (pre, k, post) = LITERAL_CONTINUATIONS[(idx % LITERAL_CONTINUATIONS.len() as u64) as usize];
            gen::enum_decode(idx / LITERAL_CONTINUATIONS.len() as u64, STEPS.len() as u64, &mut digits);
            let script: Vec<Step> = digits.iter().map(|d| STEPS[*d]).collect();
            let input = format!("{pre}{}{post}", LITERALS[k]);
            let cuts = [pre.len(), pre.len() + LITERALS[k].len()];
            for wrap in [Wrap::Strip, Wrap::AutoNever] {
                let run = Run { input: input.as_bytes(), script: &script, api: Api::WriteFmtLiteral, wrap, cuts: &cuts, probe: PROBES[idx as usize % PROBES.len()], raw_write_all: false };
                eval(&run, &mut st, true);
            }
            idx += n;
        }
        // very long single buffers (window / buffer sizes inside the stream): sizes around 8 KiB and 16 KiB, few faults
        let big_sizes: [usize; 9] = [4097, 8191, 8192, 8193, 10000, 16384, 16385, 20000, 65537];
        let big_scripts: [&[Step]; 8] = [
            &[Step::All, Step::Interrupted],
            &[Step::All, Step::Other],
            &[Step::All, Step::WouldBlock],
            &[Step::All, Step::Accept(1)],
            &[Step::All, Step::All, Step::Interrupted],
            &[Step::Accept(3), Step::All, Step::Interrupted, Step::Accept(2)],
            &[Step::Interrupted],
            &[Step::All, Step::Accept(0)],
        ];
        let mut kk = 0u64;
        for size in big_sizes {
            for shape in 0..3 {
                for (si, sc) in big_scripts.iter().enumerate() {
                    kk += 1;
                    if kk % n != shard || (cfg.tier == Tier::Tiny) {
                        continue;
                    }
                    let mut input: Vec<u8> = vec![];
                    match shape {
                        0 => input.resize(size, b'x'),
                        1 => {
                            // styled log: short coloured words separated by escapes
                            while input.len() < size {
                                input.extend_from_slice(b"\x1b[1;31merror\x1b[0m: something went wrong here\n");
                            }
                            input.truncate(size);
                        }
                        _ => {
                            // a printable run boundary exactly at the 8 KiB marks
                            while input.len() < size {
                                let room = 8192 - (input.len() % 8192);
                                if room > 8 {
                                    input.resize(input.len() + room - 4, b'y');
                                    input.extend_from_slice(b"\x1b[mz");
                                } else {
                                    input.resize(input.len() + room, b'w');
                                }
                            }
                        }
                    }
                    for api in APIS {
                        let run = Run { input: &input, script: sc, api, wrap: Wrap::Strip, cuts: &[], probe: PROBES[si % PROBES.len()], raw_write_all: si % 2 == 1 };
                        eval(&run, &mut st, true);
                    }
                    st.count("very_long_single_buffer_histories");
                }
            }
        }
        // long inputs x random scripts x random caller-side chunking
        let mut i = shard;
        while i < nlong {
            let mut rng = Rng::new(cfg.seed, 0xC06_0000_0000 + i);
            let input = match i % 8 {
                7 => gen::gen_long_stream(&mut rng, 16384, true),
                0 | 2 | 4 | 6 => gen::gen_stream(&mut rng, maxlen, true),
                _ => gen::gen_sgr_text(&mut rng, gen::SgrOpts::default(), 30, &[]),
            };
            let slen = rng.range(1, 40) as usize;
            let script: Vec<Step> = (0..slen)
                .map(|_| match rng.below(12) {
                    0 => Step::Accept(0),
                    1 | 2 => Step::Accept(1),
                    3 => Step::Accept(2),
                    4 => Step::Accept(3),
                    5 | 6 => Step::Interrupted,
                    7 => Step::WouldBlock,
                    8 => Step::Other,
                    _ => Step::All,
                })
                .collect();
            let api = APIS[rng.below(4) as usize];
            let wrap = if rng.chance(1, 3) { Wrap::AutoNever } else { Wrap::Strip };
            let cuts = if rng.chance(1, 2) { vec![] } else { gen::chunk_cuts(&mut rng, input.len(), gen::Chunker::Random(64)) };
            let cuts = match std::str::from_utf8(&input) {
                Ok(s) if api == Api::WriteFmt => gen::cuts_to_char_boundaries(s, &cuts),
                _ => cuts,
            };
            let probe = PROBES[rng.below(PROBES.len() as u64) as usize];
            let run = Run { input: &input, script: &script, api, wrap, cuts: &cuts, probe, raw_write_all: rng.chance(1, 3) };
            if i < 3 {
                st.sample(6, || {
                    let mut o = J::obj();
                    o.set("origin", J::s("long input, random script"));
                    o.set("input", J::s(show(&input[..input.len().min(100)])));
                    o.set("len", J::UInt(input.len() as u64));
                    o.set("api", J::s(format!("{:?}/{:?}", wrap, api)));
                    o.set("script", J::s(format!("{:?}", script)));
                    o.set("caller_cuts", J::UInt(cuts.len() as u64));
                    o
                });
            }
            eval(&run, &mut st, false);
            i += n;
        }
        st
    });
    st.sample(24, || {
        let mut o = J::obj();
        o.set("origin", J::s("exhaustive scripts"));
        o.set("input", J::s(show(SHORT_INPUTS[0].as_bytes())));
        o.set("script", J::s("[Accept(1), Interrupted, All]"));
        o.set("api", J::s("Strip/Write"));
        o
    });
    st.exhaustive_parts.push(format!("all inner-writer scripts of length <= {depth} over {{accept 0,1,2,3,all, Interrupted, WouldBlock, Other}} x {ninputs} short inputs x 4 write APIs (+ AutoStream::never for write / write_fmt)"));
    st
}

pub fn replay(case: &Case) -> Result<String, Viol> {
    if case.kind == "c06-eager" {
        let wrap = if case.nums.first().copied().unwrap_or(0) == 0 { Wrap::Strip } else { Wrap::AutoNever };
        let mut digits = vec![];
        gen::enum_decode(case.nums.get(1).copied().unwrap_or(0) as u64, STEPS.len() as u64, &mut digits);
        let script: Vec<Step> = digits.iter().map(|d| STEPS[*d]).collect();
        return match crate::guarded(|| check_eager_display(&script, wrap)) {
            Ok(Ok(())) => Ok("the formatted write reports the inner writer's first fatal error".into()),
            Ok(Err((sig, msg))) => Err(Viol { case: case.clone(), msg, sig }),
            Err(p) => Err(Viol { case: case.clone(), msg: format!("panicked: {p}"), sig: "c06:panic".into() }),
        };
    }
    let input = case.bytes.first().cloned().unwrap_or_default();
    let probe = case.bytes.get(1).cloned().unwrap_or_else(|| b"X".to_vec());
    let nums = &case.nums;
    let api = ALL_APIS[nums.first().copied().unwrap_or(0) as usize % 5];
    let wflag = nums.get(1).copied().unwrap_or(0);
    let wrap = if wflag & 1 == 0 { Wrap::Strip } else { Wrap::AutoNever };
    let raw_write_all = wflag & 2 != 0;
    let sl = nums.get(2).copied().unwrap_or(0) as usize;
    let script: Vec<Step> = nums.iter().skip(3).take(sl).map(|c| STEPS[*c as usize % 8]).collect();
    let cuts: Vec<usize> = nums.iter().skip(3 + sl).map(|c| *c as usize).collect();
    let run = Run { input: &input, script: &script, api, wrap, cuts: &cuts, probe: &probe, raw_write_all };
    match crate::guarded(|| run_history(&run, None)) {
        Ok(Ok(())) => Ok("history satisfies the Write contract".into()),
        Ok(Err((sig, msg))) => Err(Viol { case: case.clone(), msg, sig }),
        Err(p) => Err(Viol { case: case.clone(), msg: format!("panicked: {p}"), sig: "c06:panic".into() }),
    }
}
