//! C13 — style, effects and colour values obey their algebra.
use crate::adapt::{ansi_index, effects_of, fx_of, state_of, style_of, ANSI16, EFFECTS12};
use crate::{par, Case, Cfg, Stats, Tier, Viol};
use anstyle::{Ansi256Color, Effects, Style};
use refmodel::json::J;
use refmodel::rng::{hash64, Rng};
use refmodel::sgr::SgrState;

pub const NAMES: [&str; 12] = [
    "BOLD", "DIMMED", "ITALIC", "UNDERLINE", "DOUBLE_UNDERLINE", "CURLY_UNDERLINE", "DOTTED_UNDERLINE", "DASHED_UNDERLINE", "BLINK", "INVERT", "HIDDEN",
    "STRIKETHROUGH",
];

type R = Result<(), (String, String)>;

fn fail(sig: &str, msg: String) -> R {
    Err((format!("c13:{sig}"), msg))
}

/// laws of one set
pub fn check_unary(a: u16) -> R {
    let e = effects_of(a);
    if fx_of(e) != a {
        return fail("effects:construct", format!("building {a:#05x} from the constants reads back as {:#05x}", fx_of(e)));
    }
    if fx_of(e.clear()) != 0 || !e.clear().is_plain() {
        return fail("effects:clear", format!("clear() of {a:#05x} is not empty"));
    }
    if e.is_plain() != (a == 0) {
        return fail("effects:is_plain", format!("is_plain() = {} for {a:#05x}", e.is_plain()));
    }
    if fx_of(Effects::new()) != 0 || fx_of(Effects::default()) != 0 || Effects::new() != Effects::default() {
        return fail("effects:new", "new()/default() is not the empty set".into());
    }
    // iteration: exactly the members, each once, in declaration order
    let items: Vec<u16> = e.iter().map(fx_of).collect();
    let want: Vec<u16> = (0..12).filter(|i| a & (1 << i) != 0).map(|i| 1u16 << i).collect();
    if items != want {
        return fail("effects:iter", format!("iter() of {a:#05x} yields {:?}, expected {:?}", items, want));
    }
    // the iterator keeps its promises when consumed partly: after k items, count / size_hint / last / nth / a clone
    // speak about the remaining members only
    for k in 0..=want.len() {
        let mut it = e.iter();
        for _ in 0..k {
            it.next();
        }
        let rest = &want[k..];
        let (lo, hi) = it.size_hint();
        if lo > rest.len() || hi.map_or(false, |h| h < rest.len()) {
            return fail("effects:iter-laws", format!("iter() of {a:#05x} after {k} items: size_hint {:?} but {} members remain", (lo, hi), rest.len()));
        }
        if it.clone().count() != rest.len() {
            return fail("effects:iter-laws", format!("iter() of {a:#05x} after {k} items: count() = {} but {} members remain", it.clone().count(), rest.len()));
        }
        if it.clone().last().map(fx_of) != rest.last().copied() {
            return fail("effects:iter-laws", format!("iter() of {a:#05x} after {k} items: last() is wrong"));
        }
        for j in 0..=rest.len().min(2) {
            if it.clone().nth(j).map(fx_of) != rest.get(j).copied() || it.clone().skip(j).map(fx_of).collect::<Vec<_>>() != rest[j.min(rest.len())..] {
                return fail("effects:iter-laws", format!("iter() of {a:#05x} after {k} items: nth({j}) / skip({j}) is wrong"));
            }
        }
        if it.clone().map(fx_of).collect::<Vec<_>>() != rest || it.map(fx_of).fold(0u16, |x, y| x | y) != rest.iter().fold(0u16, |x, y| x | y) {
            return fail("effects:iter-laws", format!("iter() of {a:#05x} after {k} items: the remaining items are wrong"));
        }
    }
    // a finished iterator stays finished, however it was finished and however often it is polled
    {
        let mut it = e.iter();
        while it.next().is_some() {}
        for _ in 0..600 {
            if it.next().is_some() {
                return fail("effects:iter-laws", format!("iter() of {a:#05x} yields a member again after it returned None"));
            }
        }
        for j in [want.len(), want.len() + 1, 12, 40] {
            let mut it = e.iter();
            if it.nth(j).is_some() || it.next().is_some() || it.next().is_some() {
                return fail("effects:iter-laws", format!("iter() of {a:#05x}: nth({j}) beyond the end, or the calls after it, yield a member"));
            }
            let mut sk = e.iter().skip(j);
            if sk.next().is_some() || sk.next().is_some() {
                return fail("effects:iter-laws", format!("iter() of {a:#05x}: skip({j}) beyond the end yields a member"));
            }
        }
        if !want.is_empty() {
            let mut it = e.iter();
            let got = it.nth(want.len() - 1).map(fx_of);
            if got != want.last().copied() || it.next().is_some() {
                return fail("effects:iter-laws", format!("iter() of {a:#05x}: nth(len-1) is not the last member followed by None"));
            }
        }
    }
    // debug form names exactly the members
    let dbg = format!("{e:?}");
    let wnames: Vec<&str> = (0..12).filter(|i| a & (1 << i) != 0).map(|i| NAMES[i]).collect();
    let wdbg = format!("Effects({})", wnames.join(" | "));
    if dbg != wdbg {
        return fail("effects:debug", format!("Debug of {a:#05x} is {dbg:?}, expected {wdbg:?}"));
    }
    // ... whatever width / precision / alignment / sign / alternate flags the caller uses (also inside a Style's Debug):
    // the words of the output are exactly "Effects" and the member names
    let flagged = [format!("{e:.3?}"), format!("{e:14?}"), format!("{e:<3.1?}"), format!("{e:#?}"), format!("{e:+.2?}"), format!("{e:08?}"), format!("{e:*^9.4?}")];
    for (fi, out) in flagged.iter().enumerate() {
        let words: Vec<&str> = out.split(|c: char| !(c.is_ascii_alphanumeric() || c == '_')).filter(|w| !w.is_empty()).collect();
        let mut want_words = vec!["Effects"];
        want_words.extend(wnames.iter().copied());
        if words != want_words {
            return fail("effects:debug-flags", format!("Debug of {a:#05x} under format flags (variant {fi}) is {out:?}, which does not name exactly the members {wnames:?}"));
        }
    }
    let sdbg = format!("{:.2?}", Style::new().effects(e));
    if !sdbg.contains(&wdbg) {
        return fail("effects:debug-flags", format!("Debug of a Style with effects {a:#05x} under a precision flag is {sdbg:?}, which does not contain {wdbg:?}"));
    }
    // convenience methods of Style == inserting the named effect; Style/Effects interplay
    let s = Style::new().effects(e);
    if fx_of(s.get_effects()) != a {
        return fail("style:effects", format!("effects()/get_effects() round trip {a:#05x} -> {:#05x}", fx_of(s.get_effects())));
    }
    let conv: [(fn(Style) -> Style, usize); 8] = [(Style::bold, 0), (Style::dimmed, 1), (Style::italic, 2), (Style::underline, 3), (Style::blink, 8), (Style::invert, 9), (Style::hidden, 10), (Style::strikethrough, 11)];
    for (f, bit) in conv {
        let got = fx_of(f(s).get_effects());
        if got != a | (1 << bit) {
            return fail("style:convenience", format!("{}() on {a:#05x} gives {got:#05x}", NAMES[bit].to_lowercase()));
        }
    }
    // `==` and `!=` are complements for every comparison the types offer
    {
        let ul = Style::new().effects(e).underline_color(Some(anstyle::Color::Ansi256(Ansi256Color(14))));
        let fg = Style::new().effects(e).fg_color(Some(anstyle::Color::Ansi(ANSI16[(a % 16) as usize])));
        let bg = Style::new().effects(e).bg_color(Some(anstyle::Color::Rgb(anstyle::RgbColor(1, 2, 3))));
        let other = effects_of(a ^ 0x004);
        for (name, st, expect_eq) in [("plain", s, true), ("underline colour only", ul, false), ("foreground only", fg, false), ("background only", bg, false)] {
            #[allow(clippy::nonminimal_bool)]
            if (st == e) != expect_eq || (st != e) == expect_eq {
                return fail("style:eq-effects", format!("Style ({name}) with effects {a:#05x} vs the Effects value: == is {}, != is {}", st == e, st != e));
            }
            if (st == other) || !(st != other) {
                return fail("style:eq-effects", format!("Style ({name}) with effects {a:#05x} compares equal to different effects"));
            }
            if (st == st.clone()) != true || (st != st.clone()) {
                return fail("style:eq", "a style is not equal to its copy".into());
            }
        }
        if (e == other) || !(e != other) || !(e == effects_of(a)) || (e != effects_of(a)) {
            return fail("effects:eq", format!("== / != on Effects {a:#05x}"));
        }
    }
    if !(s == e) || Style::from(e) != s {
        return fail("style:eq-effects", format!("Style with effects {a:#05x} and no colours is not equal to the Effects value"));
    }
    Ok(())
}

/// laws of a pair of sets
#[inline]
pub fn check_pair(a: u16, b: u16, ea: Effects, eb: Effects) -> R {
    let ins = fx_of_fast(ea.insert(eb));
    if ins != a | b {
        return fail("effects:insert", format!("{a:#05x}.insert({b:#05x}) = {ins:#05x}"));
    }
    let rem = fx_of_fast(ea.remove(eb));
    if rem != a & !b {
        return fail("effects:remove", format!("{a:#05x}.remove({b:#05x}) = {rem:#05x}"));
    }
    if ea.contains(eb) != (a & b == b) {
        return fail("effects:contains", format!("{a:#05x}.contains({b:#05x}) = {}", ea.contains(eb)));
    }
    if fx_of_fast(ea | eb) != a | b || fx_of_fast(ea - eb) != a & !b {
        return fail("effects:operators", format!("| or - wrong for {a:#05x}, {b:#05x}"));
    }
    let mut x = ea;
    x |= eb;
    let mut y = ea;
    y -= eb;
    if fx_of_fast(x) != a | b || fx_of_fast(y) != a & !b {
        return fail("effects:assign-operators", format!("|= or -= wrong for {a:#05x}, {b:#05x}"));
    }
    if fx_of_fast(ea.set(eb, true)) != a | b || fx_of_fast(ea.set(eb, false)) != a & !b {
        return fail("effects:set", format!("set wrong for {a:#05x}, {b:#05x}"));
    }
    if (ea == eb) != (a == b) {
        return fail("effects:eq", format!("{a:#05x} == {b:#05x} is {}", ea == eb));
    }
    // Style operators
    let s = Style::new().effects(ea);
    if fx_of_fast((s | eb).get_effects()) != a | b || fx_of_fast((s - eb).get_effects()) != a & !b {
        return fail("style:operators", format!("Style | / - wrong for {a:#05x}, {b:#05x}"));
    }
    if (s == eb) != (a == b) {
        return fail("style:eq-effects", format!("Style({a:#05x}) == Effects({b:#05x}) is {}", s == eb));
    }
    Ok(())
}

#[inline]
fn fx_of_fast(e: Effects) -> u16 {
    // same observation as fx_of (contains of the public constants), unrolled
    let mut bits = 0u16;
    let mut i = 0;
    while i < 12 {
        if e.contains(EFFECTS12[i]) {
            bits |= 1 << i;
        }
        i += 1;
    }
    bits
}

pub fn check_colors() -> R {
    for (i, c) in ANSI16.iter().enumerate() {
        let idx = Ansi256Color::from_ansi(*c);
        if idx.index() as usize != i || idx.0 as usize != i {
            return fail("color:from_ansi", format!("{c:?} -> index {}", idx.index()));
        }
        if Ansi256Color::from(*c) != idx {
            return fail("color:from", format!("From<AnsiColor> differs from from_ansi for {c:?}"));
        }
        if ansi_index(*c) as usize != i {
            return fail("harness", "ANSI16 order".into());
        }
        for yes in [false, true] {
            let b = c.bright(yes);
            if b.is_bright() != yes {
                return fail("color:is_bright", format!("{c:?}.bright({yes}).is_bright() = {}", b.is_bright()));
            }
            if ansi_index(b) % 8 != ansi_index(*c) % 8 {
                return fail("color:bright-hue", format!("{c:?}.bright({yes}) = {b:?} changes the hue"));
            }
            if b.bright(yes) != b {
                return fail("color:bright-idempotent", format!("{c:?}.bright({yes}) is not idempotent"));
            }
        }
        if c.bright(c.is_bright()) != *c {
            return fail("color:bright-fixpoint", format!("{c:?}.bright(is_bright) != itself"));
        }
        if c.is_bright() != (i >= 8) {
            return fail("color:is_bright", format!("{c:?}.is_bright() = {}", c.is_bright()));
        }
    }
    let mut seen = std::collections::HashSet::new();
    for n in 0..=255u8 {
        let a = Ansi256Color(n).into_ansi();
        if Ansi256Color::from(n) != Ansi256Color(n) || Ansi256Color(n).index() != n {
            return fail("color:index", format!("index {n}"));
        }
        match (n < 16, a) {
            (true, Some(c)) => {
                if ansi_index(c) != n || Ansi256Color::from_ansi(c).0 != n {
                    return fail("color:into_ansi", format!("Ansi256Color({n}).into_ansi() = {c:?}"));
                }
                seen.insert(ansi_index(c));
            }
            (false, None) => {}
            (_, other) => return fail("color:into_ansi", format!("Ansi256Color({n}).into_ansi() = {other:?}")),
        }
    }
    for n in 0..=255u8 {
        if anstyle::Color::from(n) != anstyle::Color::Ansi256(Ansi256Color(n)) {
            return fail("color:from-u8", format!("Color::from({n}u8) is not the indexed colour {n}"));
        }
        let (r, g, b) = (n, n.wrapping_mul(7).wrapping_add(3), 255 - n);
        if anstyle::Color::from((r, g, b)) != anstyle::Color::Rgb(anstyle::RgbColor(r, g, b)) || anstyle::RgbColor::from((r, g, b)) != anstyle::RgbColor(r, g, b) {
            return fail("color:from-tuple", format!("From<(u8,u8,u8)> does not keep ({r},{g},{b})"));
        }
        let c = anstyle::RgbColor(r, g, b);
        if (c.r(), c.g(), c.b()) != (r, g, b) {
            return fail("color:rgb-accessors", format!("RgbColor({r},{g},{b}) accessors return ({},{},{})", c.r(), c.g(), c.b()));
        }
    }
    for (i, a) in ANSI16.iter().enumerate() {
        if anstyle::Color::from(*a) != anstyle::Color::Ansi(*a) {
            return fail("color:from-ansi", format!("Color::from({a:?})"));
        }
        for (j, b) in ANSI16.iter().enumerate() {
            let st = a.on(*b);
            if st.get_fg_color() != Some(anstyle::Color::Ansi(*a)) || st.get_bg_color() != Some(anstyle::Color::Ansi(*b)) || st.get_underline_color().is_some() || !st.get_effects().is_plain() {
                return fail("color:on", format!("{a:?}.on({b:?}) = {st:?} ({i},{j})"));
            }
        }
        let d = a.on_default();
        if d.get_fg_color() != Some(anstyle::Color::Ansi(*a)) || d.get_bg_color().is_some() {
            return fail("color:on_default", format!("{a:?}.on_default() = {d:?}"));
        }
        let x = Ansi256Color(i as u8 * 16 + 3).on(*a);
        if x.get_fg_color() != Some(anstyle::Color::Ansi256(Ansi256Color(i as u8 * 16 + 3))) || x.get_bg_color() != Some(anstyle::Color::Ansi(*a)) {
            return fail("color:on", format!("Ansi256Color.on({a:?}) = {x:?}"));
        }
        let y = anstyle::RgbColor(i as u8, 2, 3).on(anstyle::RgbColor(9, i as u8, 7));
        if y.get_fg_color() != Some(anstyle::Color::Rgb(anstyle::RgbColor(i as u8, 2, 3))) || y.get_bg_color() != Some(anstyle::Color::Rgb(anstyle::RgbColor(9, i as u8, 7))) {
            return fail("color:on", format!("RgbColor.on = {y:?}"));
        }
        if Ansi256Color(i as u8).on_default().get_fg_color() != Some(anstyle::Color::Ansi256(Ansi256Color(i as u8))) || anstyle::RgbColor(1, i as u8, 3).on_default().get_bg_color().is_some() {
            return fail("color:on_default", "typed on_default".into());
        }
    }
    // equality, ordering and hashing of colour values are structural: two colours are equal exactly when they are the same
    // kind with the same payload (a palette colour and the index with the same number are different values)
    {
        use anstyle::Color;
        use std::hash::{Hash, Hasher};
        let mut all: Vec<(u32, Color)> = vec![];
        for (i, a) in ANSI16.iter().enumerate() {
            all.push((0x1_0000 + i as u32, Color::Ansi(*a)));
        }
        for n in 0..=255u32 {
            all.push((0x2_0000 + n, Color::Ansi256(Ansi256Color(n as u8))));
        }
        for n in 0..64u32 {
            let (r, g, b) = ((n & 3) as u8 * 5, ((n >> 2) & 3) as u8 * 80, ((n >> 4) & 3) as u8);
            all.push((0x3_000000 + ((r as u32) << 16) + ((g as u32) << 8) + b as u32, Color::Rgb(anstyle::RgbColor(r, g, b))));
        }
        let h = |c: &Color| {
            let mut s = std::collections::hash_map::DefaultHasher::new();
            c.hash(&mut s);
            s.finish()
        };
        for (ka, ca) in &all {
            for (kb, cb) in &all {
                let same = ka == kb;
                if (ca == cb) != same || (ca != cb) == same {
                    return fail("color:eq", format!("{ca:?} == {cb:?} is {}", ca == cb));
                }
                if (ca.cmp(cb) == std::cmp::Ordering::Equal) != same || ca.partial_cmp(cb) != Some(ca.cmp(cb)) {
                    return fail("color:ord", format!("{ca:?}.cmp({cb:?}) = {:?}, inconsistent with equality", ca.cmp(cb)));
                }
                if same && h(ca) != h(cb) {
                    return fail("color:hash", format!("{ca:?}: equal values hash differently"));
                }
                let (sa, sb) = (Style::new().fg_color(Some(*ca)), Style::new().fg_color(Some(*cb)));
                if (sa == sb) != same || (Style::new().underline_color(Some(*ca)) == Style::new().underline_color(Some(*cb))) != same {
                    return fail("style:eq", format!("styles with {ca:?} / {cb:?} compare equal = {}", sa == sb));
                }
            }
        }
    }
    if seen.len() != 16 {
        return fail("color:bijection", format!("indices 0..16 map onto {} distinct palette colours", seen.len()));
    }
    Ok(())
}

/// setter / getter laws on a full style
pub fn check_setters(s: SgrState, t: SgrState) -> R {
    let base = style_of(s);
    if state_of(base) != s {
        return fail("style:getters", format!("getters return [{}] after setting [{}]", state_of(base).describe(), s.describe()));
    }
    let tt = style_of(t);
    let fg = base.fg_color(tt.get_fg_color());
    let e = SgrState { fg: t.fg, ..s };
    if state_of(fg) != e {
        return fail("style:fg_color", format!("fg_color changed more than the foreground: [{}]", state_of(fg).describe()));
    }
    let bg = base.bg_color(tt.get_bg_color());
    if state_of(bg) != (SgrState { bg: t.bg, ..s }) {
        return fail("style:bg_color", format!("bg_color changed more than the background: [{}]", state_of(bg).describe()));
    }
    let ul = base.underline_color(tt.get_underline_color());
    if state_of(ul) != (SgrState { ul: t.ul, ..s }) {
        return fail("style:underline_color", format!("underline_color changed more than the underline colour: [{}]", state_of(ul).describe()));
    }
    let fx = base.effects(tt.get_effects());
    if state_of(fx) != (SgrState { fx: t.fx, ..s }) {
        return fail("style:effects", format!("effects changed more than the effects: [{}]", state_of(fx).describe()));
    }
    let te = tt.get_effects();
    let or = base | te;
    let sub = base - te;
    let mut or2 = base;
    or2 |= te;
    let mut sub2 = base;
    sub2 -= te;
    if state_of(or) != (SgrState { fx: s.fx | t.fx, ..s }) || or2 != or {
        return fail("style:operators", "Style | Effects is not union on the effects only".into());
    }
    if state_of(sub) != (SgrState { fx: s.fx & !t.fx, ..s }) || sub2 != sub {
        return fail("style:operators", "Style - Effects is not difference on the effects only".into());
    }
    let no_colours = s.fg.is_none() && s.bg.is_none() && s.ul.is_none();
    if (base == te) != (no_colours && s.fx == t.fx) {
        return fail("style:eq-effects", format!("[{}] == effects {:#05x} is {}", s.describe(), t.fx, base == te));
    }
    if base.is_plain() != (s == SgrState::default()) {
        return fail("style:is_plain", format!("is_plain() of [{}] = {}", s.describe(), base.is_plain()));
    }
    if (base == tt) != (s == t) {
        return fail("style:eq", "Style equality is not field-wise".into());
    }
    // colour helpers
    if let (Some(f), Some(b)) = (tt.get_fg_color(), tt.get_bg_color()) {
        let on = f.on(b);
        if state_of(on) != (SgrState { fg: t.fg, bg: t.bg, ul: None, fx: 0 }) {
            return fail("color:on", "Color::on does not set exactly fg and bg".into());
        }
        if state_of(f.on_default()) != (SgrState { fg: t.fg, bg: None, ul: None, fx: 0 }) {
            return fail("color:on_default", "Color::on_default does not set exactly fg".into());
        }
    }
    Ok(())
}

pub fn run(cfg: &Cfg) -> Stats {
    let (nrand, pair_step) = match cfg.tier {
        Tier::Tiny => (200u64, 64u16),
        Tier::Quick => (200_000, 1),
        Tier::Thorough => (5_000_000, 1),
    };
    let mut st = par(cfg, |shard, n| {
        let mut st = Stats::new();
        if shard == 0 {
            st.eval();
            st.nontrivial_enum();
            if let Err((sig, msg)) = check_colors() {
                st.viol(&sig, msg, Case::new("c13-colors"));
            }
        }
        let all: Vec<Effects> = (0..4096u16).map(effects_of).collect();
        let mut a = shard as u16;
        while (a as u32) < 4096 {
            st.eval();
            st.nontrivial_enum();
            if let Err((sig, msg)) = check_unary(a) {
                st.viol(&sig, msg, Case::new("c13-unary").n(a as i64));
            }
            let mut b = 0u16;
            let mut pairs = 0u64;
            while b < 4096 {
                pairs += 1;
                if let Err((sig, msg)) = check_pair(a, b, all[a as usize], all[b as usize]) {
                    st.viol(&sig, msg, Case::new("c13-pair").n(a as i64).n(b as i64));
                }
                b += pair_step;
            }
            st.evaluations += pairs;
            st.nontrivial_enumerated += pairs;
            a += n as u16;
        }
        let mut i = shard;
        while i < nrand {
            let mut rng = Rng::new(cfg.seed, 0xC13_0000_0000 + i);
            let s = crate::c05::rand_state(&mut rng);
            let t = crate::c05::rand_state(&mut rng);
            st.eval();
            st.nontrivial_hash(hash64(format!("{s:?}{t:?}").as_bytes()));
            if i < 2 {
                st.sample(4, || {
                    let mut o = J::obj();
                    o.set("style_a", J::s(s.describe()));
                    o.set("style_b", J::s(t.describe()));
                    o
                });
            }
            match crate::guarded(|| check_setters(s, t)) {
                Ok(Ok(())) => {}
                Ok(Err((sig, msg))) => st.viol(&sig, msg, Case::new("c13-setters").n(i as i64).n(cfg.seed as i64)),
                Err(p) => st.viol("c13:panic", format!("panicked: {p}"), Case::new("c13-setters").n(i as i64).n(cfg.seed as i64)),
            }
            i += n;
        }
        st
    });
    st.sample(8, || {
        let mut o = J::obj();
        o.set("pair", J::s("a=0x009 (BOLD|UNDERLINE), b=0x808 (UNDERLINE|STRIKETHROUGH): insert, remove, contains, |, -, set, ==, Style|, Style-"));
        o
    });
    if pair_step == 1 {
        st.exhaustive_parts.push("all 4096 x 4096 pairs of effect sets; all 4096 sets (iteration order, Debug under 8 format-flag combinations, convenience methods); all 16 colours and all 256 indices; equality / ordering / hashing of all pairs over 16 + 256 + 64 colour values".into());
    }
    st
}

pub fn replay(case: &Case) -> Result<String, Viol> {
    let g = |i: usize| case.nums.get(i).copied().unwrap_or(0);
    let r = match case.kind.as_str() {
        "c13-colors" => crate::guarded(check_colors),
        "c13-unary" => crate::guarded(|| check_unary(g(0) as u16 & 0xfff)),
        "c13-pair" => crate::guarded(|| {
            let (a, b) = (g(0) as u16 & 0xfff, g(1) as u16 & 0xfff);
            check_pair(a, b, effects_of(a), effects_of(b))
        }),
        _ => crate::guarded(|| {
            let mut rng = Rng::new(g(1) as u64, 0xC13_0000_0000 + g(0) as u64);
            let s = crate::c05::rand_state(&mut rng);
            let t = crate::c05::rand_state(&mut rng);
            check_setters(s, t)
        }),
    };
    match r {
        Ok(Ok(())) => Ok("laws hold".into()),
        Ok(Err((sig, msg))) => Err(Viol { case: case.clone(), msg, sig }),
        Err(p) => Err(Viol { case: case.clone(), msg: format!("panicked: {p}"), sig: "c13:panic".into() }),
    }
}
