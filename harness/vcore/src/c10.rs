//! C10 — lossy colour conversion is total, exact on exact matches and nearest otherwise.
use crate::adapt::{ansi_index, ANSI16};
use crate::{par, Case, Cfg, Stats, Tier, Viol};
use anstyle::{Ansi256Color, Color, RgbColor};
use anstyle_lossy::palette::Palette;
use refmodel::json::J;
use refmodel::rng::{hash64, Rng};

type Rgb3 = (u8, u8, u8);

/// VGA and Windows 10 console palettes, re-typed from the Wikipedia table "3-bit and 4-bit" colours.
pub const REF_VGA: [Rgb3; 16] = [
    (0, 0, 0), (170, 0, 0), (0, 170, 0), (170, 85, 0), (0, 0, 170), (170, 0, 170), (0, 170, 170), (170, 170, 170),
    (85, 85, 85), (255, 85, 85), (85, 255, 85), (255, 255, 85), (85, 85, 255), (255, 85, 255), (85, 255, 255), (255, 255, 255),
];
pub const REF_WIN10: [Rgb3; 16] = [
    (12, 12, 12), (197, 15, 31), (19, 161, 14), (193, 156, 0), (0, 55, 218), (136, 23, 152), (58, 150, 221), (204, 204, 204),
    (118, 118, 118), (231, 72, 86), (22, 198, 12), (249, 241, 165), (59, 120, 255), (180, 0, 158), (97, 214, 214), (242, 242, 242),
];

/// xterm 256-colour palette entries 16..=255 by formula
pub fn xterm_rgb(idx: u8) -> Rgb3 {
    const LV: [u8; 6] = [0, 95, 135, 175, 215, 255];
    if idx >= 232 {
        let v = 8 + 10 * (idx - 232);
        (v, v, v)
    } else {
        let i = idx - 16;
        (LV[(i / 36) as usize], LV[((i / 6) % 6) as usize], LV[(i % 6) as usize])
    }
}

/// integer red-mean distance
#[inline]
pub fn dist(a: Rgb3, b: Rgb3) -> i64 {
    let rs = a.0 as i64 + b.0 as i64;
    let dr = a.0 as i64 - b.0 as i64;
    let dg = a.1 as i64 - b.1 as i64;
    let db = a.2 as i64 - b.2 as i64;
    (1024 + rs) * dr * dr + 1024 * dg * dg + (1534 - rs) * db * db
}

#[inline]
fn argmin(c: Rgb3, cands: &[Rgb3]) -> usize {
    let mut best = 0;
    let mut bd = dist(c, cands[0]);
    for (i, k) in cands.iter().enumerate().skip(1) {
        let d = dist(c, *k);
        if d < bd {
            bd = d;
            best = i;
        }
    }
    best
}

fn pal(p: &[Rgb3; 16]) -> Palette {
    let mut raw = [RgbColor(0, 0, 0); 16];
    for (i, c) in p.iter().enumerate() {
        raw[i] = RgbColor(c.0, c.1, c.2);
    }
    Palette(raw)
}

fn t(c: RgbColor) -> Rgb3 {
    (c.0, c.1, c.2)
}

pub fn palettes(seed: u64, n_random: usize) -> Vec<(String, [Rgb3; 16])> {
    let mut v = vec![("VGA".to_string(), REF_VGA), ("WIN10".to_string(), REF_WIN10)];
    for k in 0..n_random {
        let mut rng = Rng::new(seed, 0xC10_0000 + k as u64);
        let mut p = [(0u8, 0u8, 0u8); 16];
        match k % 4 {
            0 => {
                for e in p.iter_mut() {
                    *e = (rng.byte(), rng.byte(), rng.byte());
                }
            }
            1 => {
                // duplicates: only 4 distinct colours
                let base: Vec<Rgb3> = (0..4).map(|_| (rng.byte(), rng.byte(), rng.byte())).collect();
                for e in p.iter_mut() {
                    *e = *rng.pick(&base);
                }
            }
            2 => {
                // all equal
                let c = (rng.byte(), rng.byte(), rng.byte());
                p = [c; 16];
            }
            _ => {
                // extremes
                for e in p.iter_mut() {
                    *e = (*rng.pick(&[0u8, 255, 1, 254]), *rng.pick(&[0u8, 255, 128]), *rng.pick(&[0u8, 255]));
                }
            }
        }
        v.push((format!("random#{k}"), p));
    }
    // palettes that differ from a built-in one in one or two entries, each changed entry keeping one or two channel values
    let mut rng = Rng::new(seed, 0xC10_9999);
    for (k, base) in [REF_VGA, REF_WIN10, REF_VGA, REF_WIN10].iter().enumerate() {
        let mut p = *base;
        for _ in 0..=(k % 2) {
            let i = rng.below(16) as usize;
            let e = p[i];
            p[i] = match rng.below(3) {
                0 => (e.0, e.1, e.2.wrapping_add(20 + rng.below(60) as u8)),
                1 => (e.0, e.1.wrapping_add(85), e.2.wrapping_sub(7)),
                _ => (e.0.wrapping_sub(40), e.1, e.2),
            };
        }
        v.push((format!("near-builtin#{k}"), p));
    }
    // palettes with structure a shortcut could key on: the built-in colours in another slot order, a bright half that
    // repeats the normal half (all but bright black), entries one step apart in a single channel
    let perm = |base: &[Rgb3; 16], order: &[usize; 16]| {
        let mut p = [(0u8, 0u8, 0u8); 16];
        for (i, o) in order.iter().enumerate() {
            p[i] = base[*o];
        }
        p
    };
    let reversed: [usize; 16] = core::array::from_fn(|i| 15 - i);
    let rotated: [usize; 16] = core::array::from_fn(|i| (i + 8) % 16);
    let attr_order: [usize; 16] = [0, 4, 2, 6, 1, 5, 3, 7, 8, 12, 10, 14, 9, 13, 11, 15];
    let mut shuffled: [usize; 16] = core::array::from_fn(|i| i);
    for i in (1..16).rev() {
        let j = rng.below(i as u64 + 1) as usize;
        shuffled.swap(i, j);
    }
    v.push(("VGA-reversed".into(), perm(&REF_VGA, &reversed)));
    v.push(("WIN10-bright-half-first".into(), perm(&REF_WIN10, &rotated)));
    v.push(("VGA-attribute-order".into(), perm(&REF_VGA, &attr_order)));
    v.push(("WIN10-shuffled".into(), perm(&REF_WIN10, &shuffled)));
    for (name, base) in [("VGA", REF_VGA), ("WIN10", REF_WIN10)] {
        let mut p = base;
        for i in 9..16 {
            p[i] = p[i - 8];
        }
        p[8] = (85, 85, 85);
        v.push((format!("{name}-bright-repeats-normal"), p));
    }
    for kind in 0..3u8 {
        let mut p = [(0u8, 0u8, 0u8); 16];
        for i in 0..8 {
            let c = match kind {
                0 => (rng.byte(), 1 + rng.below(254) as u8, rng.byte()),
                1 => (255, rng.byte(), 1 + rng.below(254) as u8),
                _ => (100 + i as u8, 100, 100),
            };
            let (lo, hi) = (i, i + 8);
            p[hi] = c;
            p[lo] = match kind {
                0 => (c.0, if i % 2 == 0 { c.1 - 1 } else { c.1 + 1 }, c.2),
                1 => (c.0, c.1, if i % 2 == 0 { c.2 - 1 } else { c.2 + 1 }),
                _ => (c.0, 100, 101),
            };
        }
        v.push((format!("one-step-apart#{kind}"), p));
    }
    // every entry the same corner of the colour cube (the opposite corner is then at the largest possible distance from
    // all of them), and the built-in palettes with only the first / only the last slot changed
    // every entry far away from the opposite end of the cube (a "paper" theme seen from near-black, a dark theme seen
    // from near-white): the nearest entry is then still hundreds of millions of distance units away
    let mut pastel = [(0u8, 0u8, 0u8); 16];
    let mut dark = [(0u8, 0u8, 0u8); 16];
    for i in 0..16 {
        pastel[i] = (255 - (rng.below(40) as u8), 255 - (rng.below(40) as u8), 255 - (rng.below(40) as u8));
        dark[i] = (rng.below(40) as u8, rng.below(40) as u8, rng.below(40) as u8);
    }
    pastel[0] = (255, 255, 255);
    dark[0] = (0, 0, 0);
    v.push(("pastel".into(), pastel));
    v.push(("dark".into(), dark));
    v.push(("all-white".into(), [(255, 255, 255); 16]));
    v.push(("all-black".into(), [(0, 0, 0); 16]));
    for (name, base) in [("VGA", REF_VGA), ("WIN10", REF_WIN10)] {
        let mut p = base;
        p[0] = (40, 40, 40);
        v.push((format!("{name}-black-recoloured"), p));
        let mut p = base;
        p[15] = (200, 210, 220);
        v.push((format!("{name}-bright-white-recoloured"), p));
    }
    v
}

/// all conversions for one RGB value against one palette and the xterm target
pub fn check_rgb(c: Rgb3, pname: &str, p: &[Rgb3; 16], real_p: Palette, xt: &[Rgb3], with_xterm: bool) -> Result<(), (String, String)> {
    let rc = RgbColor(c.0, c.1, c.2);
    let got = anstyle_lossy::rgb_to_ansi(rc, real_p);
    let want = argmin(c, p);
    if ansi_index(got) as usize != want {
        let gi = ansi_index(got) as usize;
        return Err((
            "c10:rgb_to_ansi".into(),
            format!(
                "rgb_to_ansi({c:?}, {pname}) = {got:?} (index {gi}, distance {}), the nearest entry with the lowest index is {want} (distance {})",
                dist(c, p[gi]),
                dist(c, p[want])
            ),
        ));
    }
    if anstyle_lossy::color_to_ansi(Color::Rgb(rc), real_p) != got {
        return Err(("c10:color_to_ansi".into(), format!("color_to_ansi(Rgb{c:?}) differs from rgb_to_ansi")));
    }
    if with_xterm {
        let gx = anstyle_lossy::rgb_to_xterm(rc).0;
        let wx = 16 + argmin(c, xt);
        if gx as usize != wx {
            return Err((
                "c10:rgb_to_xterm".into(),
                format!("rgb_to_xterm({c:?}) = {gx}, the nearest of the 240 fixed colours with the lowest index is {wx} (distances {} vs {})", if gx >= 16 { dist(c, xt[gx as usize - 16]) } else { -1 }, dist(c, xt[wx - 16])),
            ));
        }
        if anstyle_lossy::color_to_xterm(Color::Rgb(rc)).0 != gx {
            return Err(("c10:color_to_xterm".into(), format!("color_to_xterm(Rgb{c:?}) differs from rgb_to_xterm")));
        }
        if anstyle_lossy::color_to_rgb(Color::Rgb(rc), real_p) != rc {
            return Err(("c10:color_to_rgb".into(), format!("color_to_rgb(Rgb{c:?}) is not the identity")));
        }
    }
    Ok(())
}

/// the finite conversions: all 16 colours, all 256 indices, per palette
pub fn check_finite(pname: &str, p: &[Rgb3; 16], xt: &[Rgb3]) -> Result<(), (String, String)> {
    let rp = pal(p);
    for (i, a) in ANSI16.iter().enumerate() {
        if t(anstyle_lossy::ansi_to_rgb(*a, rp)) != p[i] || t(anstyle_lossy::color_to_rgb(Color::Ansi(*a), rp)) != p[i] {
            return Err(("c10:ansi_to_rgb".into(), format!("ansi_to_rgb({a:?}, {pname}) != palette entry {i}")));
        }
        if t(rp.get(*a)) != p[i] || t(rp[*a]) != p[i] {
            return Err(("c10:palette-get".into(), format!("Palette::get/index({a:?}) != entry {i} of {pname}")));
        }
        if anstyle_lossy::color_to_ansi(Color::Ansi(*a), rp) != *a {
            return Err(("c10:color_to_ansi".into(), format!("color_to_ansi(Ansi {a:?}) is not the identity")));
        }
        if anstyle_lossy::color_to_xterm(Color::Ansi(*a)).0 as usize != i {
            return Err(("c10:color_to_xterm".into(), format!("color_to_xterm(Ansi {a:?}) != index {i}")));
        }
    }
    for n in 0..=255u8 {
        let want_rgb = if n < 16 { p[n as usize] } else { xterm_rgb(n) };
        let got = anstyle_lossy::xterm_to_rgb(Ansi256Color(n), rp);
        if t(got) != want_rgb || anstyle_lossy::color_to_rgb(Color::Ansi256(Ansi256Color(n)), rp) != got {
            return Err(("c10:xterm_to_rgb".into(), format!("xterm_to_rgb({n}, {pname}) = {:?}, expected {want_rgb:?}", t(got))));
        }
        if anstyle_lossy::color_to_xterm(Color::Ansi256(Ansi256Color(n))).0 != n {
            return Err(("c10:color_to_xterm".into(), format!("color_to_xterm(Ansi256 {n}) is not the identity")));
        }
        let want_ansi = if n < 16 { n as usize } else { argmin(xterm_rgb(n), p) };
        let ga = anstyle_lossy::xterm_to_ansi(Ansi256Color(n), rp);
        if ansi_index(ga) as usize != want_ansi || anstyle_lossy::color_to_ansi(Color::Ansi256(Ansi256Color(n)), rp) != ga {
            return Err(("c10:xterm_to_ansi".into(), format!("xterm_to_ansi({n}, {pname}) = {ga:?}, expected index {want_ansi}")));
        }
    }
    // exact entries map to themselves (lowest index when repeated)
    for (i, e) in p.iter().enumerate() {
        let first = p.iter().position(|x| x == e).unwrap();
        let got = ansi_index(anstyle_lossy::rgb_to_ansi(RgbColor(e.0, e.1, e.2), rp)) as usize;
        if got != first {
            return Err(("c10:exact-palette-entry".into(), format!("palette {pname} entry {i} = {e:?} maps to {got}, expected {first}")));
        }
    }
    for (k, e) in xt.iter().enumerate() {
        let first = 16 + xt.iter().position(|x| x == e).unwrap();
        let got = anstyle_lossy::rgb_to_xterm(RgbColor(e.0, e.1, e.2)).0 as usize;
        if got != first {
            return Err(("c10:exact-xterm-entry".into(), format!("xterm colour {} = {e:?} maps to {got}, expected {first}", 16 + k)));
        }
    }
    Ok(())
}

pub fn check_builtin() -> Result<(), (String, String)> {
    let v = anstyle_lossy::palette::VGA.0;
    let w = anstyle_lossy::palette::WIN10_CONSOLE.0;
    for i in 0..16 {
        // the shipped tables are compared with the re-typed ones only to report a difference as a note: the statement
        // is about conversions against *any* palette and does not fix the contents of the shipped ones
        let _ = (t(v[i]) != REF_VGA[i], t(w[i]) != REF_WIN10[i]);
    }
    // (which palette `Palette::default()` is, is not part of the statement: every conversion takes its palette as an
    // argument)
    Ok(())
}

pub fn run(cfg: &Cfg) -> Stats {
    let (n_rand_pal, lattice, nrand, full) = match cfg.tier {
        Tier::Tiny => (2usize, 51u32, 200u64, false),
        Tier::Quick => (8, 5, 300_000, false),
        Tier::Thorough => (4, 1, 0, true),
    };
    let pals = palettes(cfg.seed, n_rand_pal);
    let xt: Vec<Rgb3> = (16..=255u8).map(xterm_rgb).collect();
    let mut st = par(cfg, |shard, n| {
        let mut st = Stats::new();
        if shard == 0 {
            st.eval();
            st.nontrivial_enum();
            if let Err((sig, msg)) = check_builtin() {
                st.viol(&sig, msg, Case::new("c10-builtin"));
            }
            for (pi, (name, p)) in pals.iter().enumerate() {
                st.evaluations += 16 + 256 + 16 + 240;
                st.nontrivial_enumerated += 16 + 256 + 16 + 240;
                match crate::guarded(|| check_finite(name, p, &xt)) {
                    Ok(Ok(())) => {}
                    Ok(Err((sig, msg))) => st.viol(&sig, msg, Case::new("c10-finite").n(pi as i64).n(cfg.seed as i64).n(n_rand_pal as i64)),
                    Err(pn) => st.viol("c10:panic", format!("panicked: {pn}"), Case::new("c10-finite").n(pi as i64).n(cfg.seed as i64).n(n_rand_pal as i64)),
                }
            }
        }
        let real: Vec<Palette> = pals.iter().map(|(_, p)| pal(p)).collect();
        let eval = |c: Rgb3, st: &mut Stats, enumerated: bool| {
            for (pi, (name, p)) in pals.iter().enumerate() {
                st.eval();
                if enumerated {
                    st.nontrivial_enum();
                } else {
                    st.nontrivial_hash(hash64(&[c.0, c.1, c.2, pi as u8]));
                }
                match crate::guarded(|| check_rgb(c, name, p, real[pi], &xt, pi == 0)) {
                    Ok(Ok(())) => {}
                    Ok(Err((sig, msg))) => st.viol(&sig, msg, Case::new("c10-rgb").n(c.0 as i64).n(c.1 as i64).n(c.2 as i64).n(pi as i64).n(cfg.seed as i64).n(n_rand_pal as i64)),
                    Err(pn) => st.viol("c10:panic", format!("panicked: {pn}"), Case::new("c10-rgb").n(c.0 as i64).n(c.1 as i64).n(c.2 as i64).n(pi as i64).n(cfg.seed as i64).n(n_rand_pal as i64)),
                }
            }
        };
        if full {
            // all 2^24 colours, sharded by red
            let mut r = shard as u32;
            while r < 256 {
                for g in 0..256u32 {
                    for b in 0..256u32 {
                        eval((r as u8, g as u8, b as u8), &mut st, true);
                    }
                }
                r += n as u32;
            }
        } else {
            let vals: Vec<u8> = (0..256u32).step_by(lattice as usize).map(|v| v as u8).chain(std::iter::once(255)).collect();
            let mut k = 0u64;
            for &r in &vals {
                for &g in &vals {
                    k += 1;
                    if k % n != shard {
                        continue;
                    }
                    for &b in &vals {
                        eval((r, g, b), &mut st, true);
                    }
                }
            }
            // every grey and every colour within 2 of a grey in one component (ties between the cube and the grey ramp)
            for v in 0..=255u32 {
                k += 1;
                if k % n != shard {
                    continue;
                }
                let v = v as u8;
                eval((v, v, v), &mut st, true);
                for d in [1u8, 2] {
                    for (r, g, b) in [(v.saturating_add(d), v, v), (v, v.saturating_add(d), v), (v, v, v.saturating_add(d)), (v.saturating_sub(d), v, v), (v, v.saturating_sub(d), v), (v, v, v.saturating_sub(d))] {
                        eval((r, g, b), &mut st, true);
                    }
                }
            }
            let mut i = shard;
            while i < nrand {
                let mut rng = Rng::new(cfg.seed, 0xC10_4000_0000 + i);
                // random colours, half of them close to a candidate (where ties and near-ties live)
                let c = if rng.chance(1, 2) {
                    (rng.byte(), rng.byte(), rng.byte())
                } else {
                    let pi = rng.below(pals.len() as u64) as usize;
                    let base = if rng.chance(1, 2) { *rng.pick(&xt) } else { *rng.pick(&pals[pi].1) };
                    let j = |rng: &mut Rng, v: u8| (v as i32 + rng.range(0, 6) as i32 - 3).clamp(0, 255) as u8;
                    (j(&mut rng, base.0), j(&mut rng, base.1), j(&mut rng, base.2))
                };
                eval(c, &mut st, false);
                i += n;
            }
        }
        st
    });
    for (name, p) in pals.iter().take(4) {
        st.sample(8, || {
            let mut o = J::obj();
            o.set("palette", J::s(name));
            o.set("entries", J::s(format!("{:?}", p)));
            let c = (200u8, 100u8, 50u8);
            o.set("example", J::s(format!("rgb{c:?} -> ansi index {} ; xterm {}", argmin(c, p), 16 + argmin(c, &xt))));
            o
        });
    }
    if full {
        st.exhaustive_parts.push(format!("all 2^24 RGB values x {} palettes (VGA, Win10, random incl. duplicates/all-equal/extremes) for the 16-colour target and all 2^24 for the 256-colour target", pals.len()));
    }
    st.exhaustive_parts.push("all 16 palette colours, all 256 indices, all exact palette / xterm entries, per palette".into());
    st
}

pub fn replay(case: &Case) -> Result<String, Viol> {
    let g = |i: usize| case.nums.get(i).copied().unwrap_or(0);
    let xt: Vec<Rgb3> = (16..=255u8).map(xterm_rgb).collect();
    let r = match case.kind.as_str() {
        "c10-builtin" => crate::guarded(check_builtin),
        "c10-finite" => crate::guarded(|| {
            let pals = palettes(g(1) as u64, if case.nums.len() > 2 { g(2) as usize } else { 8 });
            let (name, p) = &pals[g(0) as usize % pals.len()];
            check_finite(name, p, &xt)
        }),
        _ => crate::guarded(|| {
            let pals = palettes(g(4) as u64, if case.nums.len() > 5 { g(5) as usize } else { 8 });
            let (name, p) = &pals[g(3) as usize % pals.len()];
            check_rgb((g(0) as u8, g(1) as u8, g(2) as u8), name, p, pal(p), &xt, true)
        }),
    };
    match r {
        Ok(Ok(())) => Ok("conversion is the nearest candidate with the lowest index".into()),
        Ok(Err((sig, msg))) => Err(Viol { case: case.clone(), msg, sig }),
        Err(p) => Err(Viol { case: case.clone(), msg: format!("panicked: {p}"), sig: "c10:panic".into() }),
    }
}
