//! Monitors (oracles + workloads) for the anstyle properties.  Every check here runs the real code from
//! /repo next to an independent reference model and records what it observed.
use refmodel::json::{hex, show, J};
use std::collections::{BTreeMap, HashSet};

pub mod adapt;
pub mod c01;
pub mod c02;
pub mod c03;
pub mod c04;
pub mod c05;
pub mod c06;
pub mod c07;
pub mod c08;
pub mod c10;
pub mod c11;
pub mod c12;
pub mod c13;
pub mod c14;
pub mod c15;

#[derive(Debug, Clone, Copy, PartialEq, Eq)]
pub enum Tier {
    /// tiny workloads for Miri / valgrind lanes
    Tiny,
    Quick,
    Thorough,
}

impl Tier {
    pub fn parse(s: &str) -> Option<Tier> {
        match s {
            "tiny" => Some(Tier::Tiny),
            "quick" => Some(Tier::Quick),
            "thorough" => Some(Tier::Thorough),
            _ => None,
        }
    }
    pub fn pick<T>(self, tiny: T, quick: T, thorough: T) -> T {
        match self {
            Tier::Tiny => tiny,
            Tier::Quick => quick,
            Tier::Thorough => thorough,
        }
    }
}

#[derive(Debug, Clone)]
pub struct Cfg {
    pub tier: Tier,
    pub seed: u64,
    pub threads: usize,
    /// optional shard selection for process-level sharding (Miri / valgrind): (index, count)
    pub pshard: (u64, u64),
}

/// A concrete case, replayable: `kind` selects the oracle, `bytes`/`nums` are its arguments.
#[derive(Debug, Clone, PartialEq, Eq)]
pub struct Case {
    pub kind: String,
    pub bytes: Vec<Vec<u8>>,
    pub nums: Vec<i64>,
}

impl Case {
    pub fn new(kind: &str) -> Case {
        Case { kind: kind.to_string(), bytes: vec![], nums: vec![] }
    }
    pub fn b(mut self, b: &[u8]) -> Case {
        self.bytes.push(b.to_vec());
        self
    }
    pub fn n(mut self, n: i64) -> Case {
        self.nums.push(n);
        self
    }
    pub fn to_json(&self) -> J {
        let mut o = J::obj();
        o.set("kind", J::s(&self.kind));
        o.set("bytes_hex", J::Arr(self.bytes.iter().map(|b| J::s(hex(b))).collect()));
        o.set("bytes_shown", J::Arr(self.bytes.iter().map(|b| J::s(show(b))).collect()));
        o.set("nums", J::Arr(self.nums.iter().map(|n| J::Int(*n)).collect()));
        o
    }
}

#[derive(Debug, Clone)]
pub struct Viol {
    pub case: Case,
    pub msg: String,
    /// classification used to match known findings: never contains input-specific data
    pub sig: String,
}

#[derive(Default)]
pub struct Stats {
    pub evaluations: u64,
    /// distinct non-trivial cases counted by construction (exhaustive enumerations)
    pub nontrivial_enumerated: u64,
    /// hashes of non-trivial random cases
    pub nontrivial_hashes: HashSet<u64>,
    pub counters: BTreeMap<String, u64>,
    pub arrays: BTreeMap<String, Vec<u64>>,
    pub samples: Vec<J>,
    pub viols: BTreeMap<String, (u64, Vec<Viol>)>,
    pub notes: Vec<String>,
    pub exhaustive_parts: Vec<String>,
}

pub const MAX_HASHES_PER_THREAD: usize = 6_000_000;

impl Stats {
    pub fn new() -> Stats {
        Stats::default()
    }
    #[inline]
    pub fn eval(&mut self) {
        self.evaluations += 1;
    }
    #[inline]
    pub fn count(&mut self, k: &str) {
        self.add(k, 1);
    }
    #[inline]
    pub fn add(&mut self, k: &str, n: u64) {
        if let Some(c) = self.counters.get_mut(k) {
            *c += n;
        } else {
            self.counters.insert(k.to_string(), n);
        }
    }
    #[inline]
    pub fn arr(&mut self, k: &str, idx: usize, len: usize) {
        self.arr_add(k, idx, len, 1);
    }
    pub fn arr_add(&mut self, k: &str, idx: usize, len: usize, n: u64) {
        if !self.arrays.contains_key(k) {
            self.arrays.insert(k.to_string(), vec![0; len]);
        }
        self.arrays.get_mut(k).unwrap()[idx] += n;
    }
    pub fn nontrivial_enum(&mut self) {
        self.nontrivial_enumerated += 1;
    }
    pub fn nontrivial_hash(&mut self, h: u64) {
        if self.nontrivial_hashes.len() < MAX_HASHES_PER_THREAD {
            self.nontrivial_hashes.insert(h);
        } else {
            self.count("nontrivial_hashes_dropped_after_cap");
        }
    }
    pub fn sample(&mut self, max: usize, j: impl FnOnce() -> J) {
        if self.samples.len() < max {
            self.samples.push(j());
        }
    }
    pub fn viol(&mut self, sig: &str, msg: String, case: Case) {
        let e = self.viols.entry(sig.to_string()).or_insert((0, vec![]));
        e.0 += 1;
        if e.1.len() < 3 {
            e.1.push(Viol { case, msg, sig: sig.to_string() });
        }
    }
    pub fn merge(&mut self, o: Stats) {
        self.evaluations += o.evaluations;
        self.nontrivial_enumerated += o.nontrivial_enumerated;
        if self.nontrivial_hashes.is_empty() {
            self.nontrivial_hashes = o.nontrivial_hashes;
        } else {
            self.nontrivial_hashes.extend(o.nontrivial_hashes);
        }
        for (k, v) in o.counters {
            *self.counters.entry(k).or_insert(0) += v;
        }
        for (k, v) in o.arrays {
            let e = self.arrays.entry(k).or_insert_with(|| vec![0; v.len()]);
            for (i, x) in v.iter().enumerate() {
                e[i] += x;
            }
        }
        for s in o.samples {
            if self.samples.len() < 24 {
                self.samples.push(s);
            }
        }
        for (k, (n, vs)) in o.viols {
            let e = self.viols.entry(k).or_insert((0, vec![]));
            e.0 += n;
            for v in vs {
                if e.1.len() < 3 {
                    e.1.push(v);
                }
            }
        }
        for n in o.notes {
            if !self.notes.contains(&n) {
                self.notes.push(n);
            }
        }
        for n in o.exhaustive_parts {
            if !self.exhaustive_parts.contains(&n) {
                self.exhaustive_parts.push(n);
            }
        }
    }
    pub fn violation_count(&self) -> u64 {
        self.viols.values().map(|v| v.0).sum()
    }
    pub fn to_json(&self, check: &str, cfg: &Cfg) -> J {
        let mut o = J::obj();
        o.set("check", J::s(check));
        o.set("tier", J::s(format!("{:?}", cfg.tier).to_lowercase()));
        o.set("seed", J::UInt(cfg.seed));
        o.set("evaluations", J::UInt(self.evaluations));
        o.set("distinct_nontrivial", J::UInt(self.nontrivial_enumerated + self.nontrivial_hashes.len() as u64));
        o.set("distinct_nontrivial_enumerated", J::UInt(self.nontrivial_enumerated));
        o.set("distinct_nontrivial_random", J::UInt(self.nontrivial_hashes.len() as u64));
        let mut c = J::obj();
        for (k, v) in &self.counters {
            c.set(k, J::UInt(*v));
        }
        o.set("counters", c);
        let mut a = J::obj();
        for (k, v) in &self.arrays {
            a.set(k, J::Arr(v.iter().map(|x| J::UInt(*x)).collect()));
        }
        o.set("arrays", a);
        o.set("samples", J::Arr(self.samples.clone()));
        o.set("notes", J::Arr(self.notes.iter().map(J::s).collect()));
        o.set("exhaustive_parts", J::Arr(self.exhaustive_parts.iter().map(J::s).collect()));
        let mut vs = vec![];
        for (sig, (n, ex)) in &self.viols {
            let mut v = J::obj();
            v.set("sig", J::s(sig));
            v.set("count", J::UInt(*n));
            v.set(
                "examples",
                J::Arr(
                    ex.iter()
                        .map(|e| {
                            let mut x = J::obj();
                            x.set("msg", J::s(&e.msg));
                            x.set("case", e.case.to_json());
                            x
                        })
                        .collect(),
                ),
            );
            vs.push(v);
        }
        o.set("violations", J::Arr(vs));
        o
    }
}

/// Run `f(shard, nshards)` on `threads` OS threads and merge the results.
static TINY_TIER: std::sync::atomic::AtomicBool = std::sync::atomic::AtomicBool::new(false);
thread_local! {
    static TINY_CTR: std::cell::Cell<u64> = const { std::cell::Cell::new(0) };
}

/// The interpreter lanes (Miri, valgrind) run the `tiny` tier, where one evaluation costs 0.1 - 1 s: there the
/// deterministic shape families are sampled - one case in `keep_one_in` - instead of enumerated.  Always false in the
/// other tiers.
pub fn tiny_skip(keep_one_in: u64) -> bool {
    if !TINY_TIER.load(std::sync::atomic::Ordering::Relaxed) {
        return false;
    }
    TINY_CTR.with(|c| {
        let v = c.get();
        c.set(v + 1);
        v % keep_one_in != 0
    })
}

pub fn par<F>(cfg: &Cfg, f: F) -> Stats
where
    F: Fn(u64, u64) -> Stats + Sync,
{
    TINY_TIER.store(cfg.tier == Tier::Tiny, std::sync::atomic::Ordering::Relaxed);
    let n = cfg.threads.max(1) as u64;
    let (pi, pn) = cfg.pshard;
    let total = n * pn;
    let mut out = Stats::new();
    if n == 1 {
        out.merge(f(pi, total));
        return out;
    }
    let results: Vec<Stats> = std::thread::scope(|s| {
        let hs: Vec<_> = (0..n)
            .map(|t| {
                let f = &f;
                std::thread::Builder::new()
                    .stack_size(64 << 20)
                    .spawn_scoped(s, move || f(pi * n + t, total))
                    .expect("spawn")
            })
            .collect();
        hs.into_iter().map(|h| h.join().expect("worker panicked outside catch_unwind")).collect()
    });
    for r in results {
        out.merge(r);
    }
    out
}

/// Run a closure, turning a panic into an error string (the code under test must never panic on input).
pub fn guarded<T>(f: impl FnOnce() -> T) -> Result<T, String> {
    GUARD_DEPTH.with(|d| d.set(d.get() + 1));
    let r = std::panic::catch_unwind(std::panic::AssertUnwindSafe(f));
    GUARD_DEPTH.with(|d| d.set(d.get() - 1));
    match r {
        Ok(v) => Ok(v),
        Err(e) => {
            let msg = if let Some(s) = e.downcast_ref::<&str>() {
                s.to_string()
            } else if let Some(s) = e.downcast_ref::<String>() {
                s.clone()
            } else {
                "non-string panic".to_string()
            };
            // where it happened (recorded by the panic hook): the driver tells a panic of the code under test from a
            // mistake of the monitor's own code by this
            let loc = LAST_PANIC_AT.with(|l| l.borrow().clone());
            Err(if loc.is_empty() { msg } else { format!("{msg} [panicked at {loc}]") })
        }
    }
}

thread_local! {
    static GUARD_DEPTH: std::cell::Cell<u32> = const { std::cell::Cell::new(0) };
    static LAST_PANIC_AT: std::cell::RefCell<String> = const { std::cell::RefCell::new(String::new()) };
}

/// Panics inside `guarded` are expected events (they become violations with their location); a panic anywhere else kills
/// the monitor, and its location is printed so that the driver can classify it.
pub fn quiet_panics() {
    std::panic::set_hook(Box::new(|info| {
        let loc = info.location().map(|l| format!("{}:{}", l.file(), l.line())).unwrap_or_default();
        LAST_PANIC_AT.with(|l| *l.borrow_mut() = loc.clone());
        if GUARD_DEPTH.with(|d| d.get()) == 0 {
            eprintln!("UNGUARDED-PANIC at {loc}: {}", info.to_string().replace('\n', " "));
        }
    }));
}

pub type CheckFn = fn(&Cfg) -> Stats;
pub type ReplayFn = fn(&Case) -> Result<String, Viol>;

pub struct CheckDef {
    pub name: &'static str,
    pub run: CheckFn,
    pub replay: ReplayFn,
}

pub fn lean_checks() -> Vec<CheckDef> {
    vec![
        CheckDef { name: "c01", run: c01::run, replay: c01::replay },
        CheckDef { name: "c02", run: c02::run, replay: c02::replay },
        CheckDef { name: "c03", run: c03::run, replay: c03::replay },
        CheckDef { name: "c04", run: c04::run, replay: c04::replay },
        CheckDef { name: "c05", run: c05::run, replay: c05::replay },
        CheckDef { name: "c06", run: c06::run, replay: c06::replay },
        CheckDef { name: "c07", run: c07::run, replay: c07::replay },
        CheckDef { name: "c08", run: c08::run, replay: c08::replay },
        CheckDef { name: "c10", run: c10::run, replay: c10::replay },
        CheckDef { name: "c11", run: c11::run, replay: c11::replay },
        CheckDef { name: "c12", run: c12::run, replay: c12::replay },
        CheckDef { name: "c13", run: c13::run, replay: c13::replay },
        CheckDef { name: "c14", run: c14::run, replay: c14::replay },
        CheckDef { name: "c15", run: c15::run, replay: c15::replay },
    ]
}

/// Shared CLI: `<bin> run <check> --tier T --seed S --threads N [--pshard i/n]` or
/// `<bin> replay <check> --kind K [--hex H]... [--num N]...`
pub fn cli_main(checks: Vec<CheckDef>) -> i32 {
    let args: Vec<String> = std::env::args().collect();
    if args.len() < 3 {
        eprintln!("usage: {} run|replay <check> ...", args[0]);
        return 2;
    }
    let mode = args[1].as_str();
    let name = args[2].as_str();
    if mode == "canary" {
        return c04::canary(name);
    }
    let Some(def) = checks.iter().find(|c| c.name == name) else {
        eprintln!("unknown check {name}");
        return 2;
    };
    let mut cfg = Cfg { tier: Tier::Quick, seed: 1, threads: 1, pshard: (0, 1) };
    let mut case = Case::new("");
    let mut i = 3;
    while i < args.len() {
        let a = args[i].as_str();
        let v = args.get(i + 1).cloned().unwrap_or_default();
        match a {
            "--tier" => cfg.tier = Tier::parse(&v).expect("tier"),
            "--seed" => cfg.seed = v.parse().expect("seed"),
            "--threads" => cfg.threads = v.parse().expect("threads"),
            "--pshard" => {
                let (a, b) = v.split_once('/').expect("i/n");
                cfg.pshard = (a.parse().unwrap(), b.parse().unwrap());
            }
            "--kind" => case.kind = v.clone(),
            "--hex" => case.bytes.push(refmodel::json::unhex(&v).expect("hex")),
            "--num" => case.nums.push(v.parse().expect("num")),
            _ => {
                eprintln!("unknown argument {a}");
                return 2;
            }
        }
        i += 2;
    }
    quiet_panics();
    match mode {
        "run" => {
            let st = (def.run)(&cfg);
            println!("{}", st.to_json(name, &cfg).to_string());
            0
        }
        "replay" => match (def.replay)(&case) {
            Ok(msg) => {
                let mut o = J::obj();
                o.set("replay", J::s("held"));
                o.set("detail", J::s(msg));
                println!("{}", o.to_string());
                0
            }
            Err(v) => {
                let mut o = J::obj();
                o.set("replay", J::s("violated"));
                o.set("sig", J::s(&v.sig));
                o.set("msg", J::s(&v.msg));
                o.set("case", v.case.to_json());
                println!("{}", o.to_string());
                1
            }
        },
        _ => 2,
    }
}
