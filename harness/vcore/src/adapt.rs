//! Glue between the crates under test and the reference models (conversions only, no oracle logic).
use refmodel::sgr::{fx, Col, SgrState};
use refmodel::vt::Ev;

pub const ANSI16: [anstyle::AnsiColor; 16] = [
    anstyle::AnsiColor::Black,
    anstyle::AnsiColor::Red,
    anstyle::AnsiColor::Green,
    anstyle::AnsiColor::Yellow,
    anstyle::AnsiColor::Blue,
    anstyle::AnsiColor::Magenta,
    anstyle::AnsiColor::Cyan,
    anstyle::AnsiColor::White,
    anstyle::AnsiColor::BrightBlack,
    anstyle::AnsiColor::BrightRed,
    anstyle::AnsiColor::BrightGreen,
    anstyle::AnsiColor::BrightYellow,
    anstyle::AnsiColor::BrightBlue,
    anstyle::AnsiColor::BrightMagenta,
    anstyle::AnsiColor::BrightCyan,
    anstyle::AnsiColor::BrightWhite,
];

/// index of a 16-colour value by *name* (declaration order of the documented enum), not via crate tables
pub fn ansi_index(c: anstyle::AnsiColor) -> u8 {
    use anstyle::AnsiColor::*;
    match c {
        Black => 0,
        Red => 1,
        Green => 2,
        Yellow => 3,
        Blue => 4,
        Magenta => 5,
        Cyan => 6,
        White => 7,
        BrightBlack => 8,
        BrightRed => 9,
        BrightGreen => 10,
        BrightYellow => 11,
        BrightBlue => 12,
        BrightMagenta => 13,
        BrightCyan => 14,
        BrightWhite => 15,
    }
}

pub fn col_of(c: anstyle::Color) -> Col {
    match c {
        anstyle::Color::Ansi(a) => Col::P16(ansi_index(a)),
        anstyle::Color::Ansi256(i) => Col::Idx(i.0),
        anstyle::Color::Rgb(r) => Col::Rgb(r.0, r.1, r.2),
    }
}

pub fn color_of(c: Col) -> anstyle::Color {
    match c {
        Col::P16(n) => anstyle::Color::Ansi(ANSI16[n as usize]),
        Col::Idx(n) => anstyle::Color::Ansi256(anstyle::Ansi256Color(n)),
        Col::Rgb(r, g, b) => anstyle::Color::Rgb(anstyle::RgbColor(r, g, b)),
    }
}

/// The twelve public effect constants in the reference bit order.
pub const EFFECTS12: [anstyle::Effects; 12] = [
    anstyle::Effects::BOLD,
    anstyle::Effects::DIMMED,
    anstyle::Effects::ITALIC,
    anstyle::Effects::UNDERLINE,
    anstyle::Effects::DOUBLE_UNDERLINE,
    anstyle::Effects::CURLY_UNDERLINE,
    anstyle::Effects::DOTTED_UNDERLINE,
    anstyle::Effects::DASHED_UNDERLINE,
    anstyle::Effects::BLINK,
    anstyle::Effects::INVERT,
    anstyle::Effects::HIDDEN,
    anstyle::Effects::STRIKETHROUGH,
];

pub fn fx_of(e: anstyle::Effects) -> u16 {
    let mut bits = 0u16;
    for (i, c) in EFFECTS12.iter().enumerate() {
        if e.contains(*c) {
            bits |= 1 << i;
        }
    }
    bits
}

pub fn effects_of(bits: u16) -> anstyle::Effects {
    let mut e = anstyle::Effects::new();
    for (i, c) in EFFECTS12.iter().enumerate() {
        if bits & (1 << i) != 0 {
            e = e.insert(*c);
        }
    }
    e
}

pub fn state_of(s: anstyle::Style) -> SgrState {
    SgrState {
        fg: s.get_fg_color().map(col_of),
        bg: s.get_bg_color().map(col_of),
        ul: s.get_underline_color().map(col_of),
        fx: fx_of(s.get_effects()),
    }
}

pub fn style_of(s: SgrState) -> anstyle::Style {
    anstyle::Style::new()
        .fg_color(s.fg.map(color_of))
        .bg_color(s.bg.map(color_of))
        .underline_color(s.ul.map(color_of))
        .effects(effects_of(s.fx))
}

pub const _FX_CHECK: u16 = fx::ALL_UNDERLINES;

/// `Perform` that records every callback as a reference-model event.
#[derive(Default, Debug, Clone)]
pub struct Recorder {
    pub ev: Vec<Ev>,
    /// Params iterator invariants violated (message), checked on every dispatch
    pub params_problem: Option<String>,
}

fn copy_params(p: &anstyle_parse::Params, problem: &mut Option<String>) -> Vec<Vec<u16>> {
    // (a parameter list holds at most 32 values: an iterator that is still going after 200 items never ends, and none
    // of the unbounded operations below may be tried on it)
    if p.iter().take(200).count() >= 200 {
        *problem = Some("Params::iter() does not terminate (200 items and still going)".to_string());
        return p.iter().take(40).map(|g| g.to_vec()).collect();
    }
    let v: Vec<Vec<u16>> = p.iter().map(|g| g.to_vec()).collect();
    let total: usize = v.iter().map(|g| g.len()).sum();
    if total != p.len() {
        *problem = Some(format!("Params::len()={} but groups sum to {}", p.len(), total));
    }
    if p.is_empty() != (p.len() == 0) {
        *problem = Some("Params::is_empty inconsistent with len".to_string());
    }
    if v.iter().any(|g| g.is_empty()) {
        *problem = Some("empty parameter group".to_string());
    }
    // the iterator adapters a performer may use see the same groups: nth / skip / step_by / last / count / a partly
    // consumed iterator; Clone and Debug of the parameter list itself
    let n = v.len();
    // (count() / last() are called on the iterator itself, so that an implementation's own shortcuts are exercised)
    if p.iter().count() != n || p.iter().take(80).count() != n || p.iter().last().map(|g| g.to_vec()) != v.last().cloned() {
        *problem = Some("Params::iter().count() / last() disagree with plain iteration".to_string());
    }
    for j in 0..=n.min(4) {
        if p.iter().nth(j).map(|g| g.to_vec()) != v.get(j).cloned() {
            *problem = Some(format!("Params::iter().nth({j}) = {:?}, plain iteration gives {:?}", p.iter().nth(j), v.get(j)));
        }
        // (bounded: a broken iterator must not turn into an endless loop of the monitor)
        let sk: Vec<Vec<u16>> = p.iter().skip(j).take(80).map(|g| g.to_vec()).collect();
        if sk[..] != v[j.min(n)..] {
            *problem = Some(format!("Params::iter().skip({j}) yields {sk:?}, plain iteration gives {:?}", &v[j.min(n)..]));
        }
        let mut it = p.iter();
        for _ in 0..j {
            it.next();
        }
        let (lo, hi) = it.size_hint();
        let rest: Vec<Vec<u16>> = it.take(80).map(|g| g.to_vec()).collect();
        if rest[..] != v[j.min(n)..] || lo > rest.iter().map(|g| g.len()).sum::<usize>().max(rest.len()) || hi.map_or(false, |h| h < rest.len()) {
            *problem = Some(format!("Params::iter() after {j} items yields {rest:?} (size_hint ({lo},{hi:?})), expected {:?}", &v[j.min(n)..]));
        }
    }
    let st: Vec<Vec<u16>> = p.iter().step_by(2).take(80).map(|g| g.to_vec()).collect();
    if st != v.iter().step_by(2).cloned().collect::<Vec<_>>() {
        *problem = Some(format!("Params::iter().step_by(2) yields {st:?}"));
    }
    let pc = p.clone();
    if pc.iter().map(|g| g.to_vec()).collect::<Vec<_>>() != v || pc.len() != p.len() || format!("{pc:?}") != format!("{p:?}") {
        *problem = Some("a clone of the parameter list differs from the original".to_string());
    }
    let (lo, hi) = p.iter().size_hint();
    if lo > n && lo > total {
        *problem = Some(format!("size_hint lower bound {lo} exceeds both the {n} groups and the {total} numbers"));
    }
    if lo > total || hi.map_or(false, |h| h < v.len()) {
        *problem = Some(format!("size_hint ({lo},{hi:?}) inconsistent with {} groups / {} numbers", v.len(), total));
    }
    v
}

impl anstyle_parse::Perform for Recorder {
    fn print(&mut self, c: char) {
        self.ev.push(Ev::Print(c));
    }
    fn execute(&mut self, byte: u8) {
        self.ev.push(Ev::Execute(byte));
    }
    fn hook(&mut self, params: &anstyle_parse::Params, intermediates: &[u8], ignore: bool, action: u8) {
        let params = copy_params(params, &mut self.params_problem);
        self.ev.push(Ev::Hook { params, inter: intermediates.to_vec(), ignore, fin: action });
    }
    fn put(&mut self, byte: u8) {
        self.ev.push(Ev::Put(byte));
    }
    fn unhook(&mut self) {
        self.ev.push(Ev::Unhook);
    }
    fn osc_dispatch(&mut self, params: &[&[u8]], bell_terminated: bool) {
        self.ev.push(Ev::Osc { params: params.iter().map(|p| p.to_vec()).collect(), bell: bell_terminated });
    }
    fn csi_dispatch(&mut self, params: &anstyle_parse::Params, intermediates: &[u8], ignore: bool, action: u8) {
        let params = copy_params(params, &mut self.params_problem);
        self.ev.push(Ev::Csi { params, inter: intermediates.to_vec(), ignore, fin: action });
    }
    fn esc_dispatch(&mut self, intermediates: &[u8], ignore: bool, byte: u8) {
        self.ev.push(Ev::Esc { inter: intermediates.to_vec(), ignore, fin: byte });
    }
}

pub fn real_parse(bytes: &[u8]) -> Recorder {
    let mut p = anstyle_parse::Parser::<anstyle_parse::DefaultCharAccumulator>::new();
    let mut r = Recorder::default();
    for &b in bytes {
        p.advance(&mut r, b);
    }
    r
}

pub fn first_diff<T: PartialEq + std::fmt::Debug>(a: &[T], b: &[T]) -> String {
    let n = a.len().min(b.len());
    for i in 0..n {
        if a[i] != b[i] {
            return format!("first difference at event {i}: observed {:?}, expected {:?}", a[i], b[i]);
        }
    }
    if a.len() != b.len() {
        let (name, rest) = if a.len() > b.len() { ("observed has extra", format!("{:?}", &a[n..a.len().min(n + 3)])) } else { ("expected has extra", format!("{:?}", &b[n..b.len().min(n + 3)])) };
        return format!("{name} events after {n}: {rest}");
    }
    "equal".to_string()
}
