//! C14 — SVG rendering: the monitor's Rust half.  Generates documents, runs `Term::render_svg`, and writes one JSON
//! line per document with the SVG and the expectation computed by the reference models.  The verdict is reached by
//! the offline checker (vlib/c14.py), which parses every SVG with an independent XML parser (expat).
use crate::{Case, Cfg, Stats, Tier, Viol};
use refmodel::gen::{self, SgrOpts};
use refmodel::json::{hex, show, J};
use refmodel::rng::{hash64, Rng};
use refmodel::sgr::{self, fx, Col, SgrState, UlMode};
use std::io::Write;

type Rgb3 = (u8, u8, u8);

fn resolve(c: Col, pal: &[Rgb3; 16]) -> Rgb3 {
    match c {
        Col::P16(n) => pal[n as usize],
        Col::Idx(n) if n < 16 => pal[n as usize],
        Col::Idx(n) => crate::c10::xterm_rgb(n),
        Col::Rgb(r, g, b) => (r, g, b),
    }
}

fn hexrgb(c: Rgb3) -> String {
    format!("#{:02X}{:02X}{:02X}", c.0, c.1, c.2)
}

#[derive(Clone, Copy, Debug)]
pub struct TermCfg {
    pub win10: bool,
    pub fg: Col,
    pub bg: Col,
    pub background: bool,
}

pub const DEFAULT_COLS: [(Col, Col); 5] = [
    (Col::P16(7), Col::P16(0)),
    (Col::P16(15), Col::P16(4)),
    (Col::Idx(250), Col::Idx(17)),
    (Col::Rgb(1, 2, 3), Col::Rgb(250, 251, 252)),
    (Col::Idx(3), Col::Rgb(10, 20, 30)),
];

pub fn make_cfg(k: u64) -> TermCfg {
    let (fg, bg) = DEFAULT_COLS[(k % 5) as usize];
    TermCfg { win10: (k / 5) % 2 == 1, fg, bg, background: (k / 10) % 2 == 0 }
}

fn meanings(s: &SgrState, cfg: &TermCfg, pal: &[Rgb3; 16]) -> Vec<String> {
    let mut fg = s.fg;
    let mut bg = s.bg;
    if s.fx & fx::INVERT != 0 {
        fg = Some(s.bg.unwrap_or(cfg.bg));
        bg = Some(s.fg.unwrap_or(cfg.fg));
    }
    let mut m = vec![];
    if let Some(c) = fg {
        m.push(format!("fg:{}", hexrgb(resolve(c, pal))));
    }
    if let Some(c) = bg {
        m.push(format!("bg:{}", hexrgb(resolve(c, pal))));
    }
    if let Some(c) = s.ul {
        m.push(format!("ul:{}", hexrgb(resolve(c, pal))));
    }
    let names = [
        (fx::BOLD, "bold"),
        (fx::DIM, "dimmed"),
        (fx::ITALIC, "italic"),
        (fx::UNDERLINE, "underline"),
        (fx::DOUBLE_UNDERLINE, "double-underline"),
        (fx::CURLY_UNDERLINE, "curly-underline"),
        (fx::DOTTED_UNDERLINE, "dotted-underline"),
        (fx::DASHED_UNDERLINE, "dashed-underline"),
        (fx::HIDDEN, "hidden"),
        (fx::STRIKE, "strikethrough"),
    ];
    for (bit, n) in names {
        if s.fx & bit != 0 {
            m.push(n.to_string());
        }
    }
    m.sort();
    m
}

pub fn render(input: &str, cfg: &TermCfg) -> String {
    let pal = if cfg.win10 { anstyle_svg::WIN10_CONSOLE } else { anstyle_svg::VGA };
    // the builder calls in different orders, with the unrelated width / font setters in between and at the end
    let t = anstyle_svg::Term::new();
    let (fg, bg) = (crate::adapt::color_of(cfg.fg), crate::adapt::color_of(cfg.bg));
    let t = match (input.len() + cfg.background as usize) % 3 {
        0 => t.palette(pal).fg_color(fg).bg_color(bg).background(cfg.background),
        1 => t.min_width_px(300).background(cfg.background).bg_color(bg).palette(pal).fg_color(fg).min_width_px(400),
        _ => t.fg_color(fg).palette(pal).min_width_px(10).background(cfg.background).bg_color(bg).min_width_px(720),
    };
    t.render_svg(input)
}

/// One JSON document: input, configuration, the SVG and what it must contain.
pub fn document(id: u64, input: &str, cfg: &TermCfg) -> Result<J, String> {
    // "the RGB value the configured palette assigns": the values of the palette that was handed to the renderer,
    // whatever the shipped constant contains
    let configured = if cfg.win10 { anstyle_lossy::palette::WIN10_CONSOLE } else { anstyle_lossy::palette::VGA };
    let mut pal = [(0u8, 0u8, 0u8); 16];
    for (i, c) in configured.0.iter().enumerate() {
        pal[i] = (c.0, c.1, c.2);
    }
    let svg = crate::guarded(|| render(input, cfg))?;
    let (chars, _) = sgr::interpret(input.as_bytes(), UlMode::Select);
    // lines: split at '\n', a '\r' directly before it dropped
    let mut lines: Vec<Vec<(char, Vec<String>)>> = vec![];
    let mut cur: Vec<(char, Vec<String>)> = vec![];
    let mut any = false;
    for (c, s) in &chars {
        any = true;
        if *c == '\n' {
            if matches!(cur.last(), Some(('\r', _))) {
                cur.pop();
            }
            lines.push(std::mem::take(&mut cur));
        } else {
            cur.push((*c, meanings(s, cfg, &pal)));
        }
    }
    if any {
        lines.push(cur);
    }
    let mut o = J::obj();
    o.set("id", J::UInt(id));
    o.set("input_hex", J::s(hex(input.as_bytes())));
    o.set("input_shown", J::s(show(&input.as_bytes()[..input.len().min(200)])));
    let mut c = J::obj();
    c.set("palette", J::s(if cfg.win10 { "WIN10" } else { "VGA" }));
    c.set("default_fg", J::s(hexrgb(resolve(cfg.fg, &pal))));
    c.set("default_bg", J::s(hexrgb(resolve(cfg.bg, &pal))));
    c.set("background", J::Bool(cfg.background));
    o.set("cfg", c);
    o.set("svg", J::s(svg));
    // runs of equal meaning per line
    let mut jl = vec![];
    for l in &lines {
        let mut runs: Vec<J> = vec![];
        let mut text = String::new();
        let mut cur_m: Option<&Vec<String>> = None;
        for (ch, m) in l {
            if cur_m != Some(m) {
                if let Some(pm) = cur_m {
                    runs.push(J::Arr(vec![J::s(std::mem::take(&mut text)), J::Arr(pm.iter().map(J::s).collect())]));
                }
                cur_m = Some(m);
            }
            text.push(*ch);
        }
        if let Some(pm) = cur_m {
            runs.push(J::Arr(vec![J::s(text), J::Arr(pm.iter().map(J::s).collect())]));
        }
        jl.push(J::Arr(runs));
    }
    o.set("lines", J::Arr(jl));
    Ok(o)
}

pub const EXTRA: [&str; 25] = [
    "&", "<", ">", "\"", "'", "]]>", "&amp;", "<tspan>", "</text>", "\u{6f22}\u{5b57}", "\u{200b}", "e\u{301}", "\u{1f600}", "  ", "\u{a0}", "&#10;",
    // a line ending with two carriage returns: one belongs to the line feed, the other stays in the line
    "\r\r\n", "y\r\r\n",
    // a complete SGR sequence with a line break / tab inside it (executed as text in the style so far)
    "\x1b[3\n1m", "\x1b[4\t;32m",
    // a colon-form colour cut short, followed by a complete colour in the same sequence
    "\x1b[38:2:255:0;48;2;0;0;255m", "\x1b[4;48:2:9;58:2:1:2:3m",
    // neighbouring runs that differ as written but show the same colours once reverse video is resolved
    "\x1b[0;7mAB\x1b[0;30;47mCD", "\x1b[0;7;31;42mEF\x1b[0;32;41mGH", "\x1b[0;7;34mI\x1b[0;44;30mJ\x1b[0m",
];

pub fn gen_input(seed: u64, i: u64, items: u64) -> String {
    let mut rng = Rng::new(seed, 0xC14_0000_0000 + i);
    let opts = SgrOpts { ws: true, noise: true, blink: false, ul_color: true, max_seq_numbers: 32 };
    let bytes = gen::gen_sgr_text(&mut rng, opts, items, &EXTRA);
    String::from_utf8(bytes).expect("grammar produces UTF-8")
}

/// `run` writes the JSONL file named by VH_C14_OUT (the python driver sets it) and returns generation statistics.
pub fn run(cfg: &Cfg) -> Stats {
    let (n, items) = match cfg.tier {
        Tier::Tiny => (20u64, 10u64),
        Tier::Quick => (3_000, 30),
        Tier::Thorough => (300_000, 40),
    };
    let mut st = Stats::new();
    let path = std::env::var("VH_C14_OUT").unwrap_or_default();
    if path.is_empty() {
        st.notes.push("VH_C14_OUT not set: nothing written".into());
        return st;
    }
    let (pi, pn) = cfg.pshard;
    let mut out = std::io::BufWriter::new(std::fs::File::create(&path).expect("create out file"));
    // deterministic sweep: runs whose length sits on a power-of-two threshold (ids from 10^9 upwards)
    let max_thr = match cfg.tier {
        Tier::Tiny => 128usize,
        Tier::Quick => 16384,
        Tier::Thorough => 65536,
    };
    let mut k = 0u64;
    for t in gen::THRESHOLDS.iter().filter(|t| **t <= max_thr) {
        for d in -2i64..=2 {
            for ending in 0..4u8 {
                for styled in [false, true] {
                    k += 1;
                    if k % pn != pi {
                        continue;
                    }
                    let doc = gen::threshold_document((*t as i64 + d) as usize, ending, styled);
                    let input = String::from_utf8(doc).expect("ascii");
                    let tc = make_cfg(k);
                    st.eval();
                    st.nontrivial_hash(hash64(format!("{input}{tc:?}").as_bytes()));
                    st.count("threshold_run_documents");
                    match document(1_000_000_000 + k, &input, &tc) {
                        Ok(doc) => writeln!(out, "{}", doc.to_string()).expect("write"),
                        Err(p) => st.viol("c14:panic", format!("render_svg panicked: {p}"), Case::new("c14").b(input.as_bytes()).n(k as i64)),
                    }
                }
            }
        }
    }
    // small fixed captures: reverse video (and its combinations) in a capture that sets no background anywhere, no styles
    // at all, only line breaks, a single character
    if pi == 0 {
        let fixed: [&str; 15] = [
            // a CR LF pair whose CR and LF lie in different runs, next to a CR that belongs to the line
            "\x1b[31mfoo\r\x1b[0m\r\nbar",
            "a\r\x1b[1m\r\n\x1b[0mb\r\n",
            "\x1b[32mline\x1b[0m\r\n\x1b[1mnext\x1b[0m\r\x1b[4m\nlast",
            // a fragment made of zero-width characters only
            "caf\x1b[1;31me\x1b[0m\u{301}\n",
            "a\x1b[4m\u{200b}\x1b[0mb",
            "\x1b[7m INFO \x1b[0m started\n",
            "\x1b[1;7mX\x1b[0;1mY",
            "plain \x1b[7;31mred-inverted\x1b[0m tail\nnext \x1b[7mline\x1b[m",
            "\x1b[7;4;58;5;196mu\x1b[0m",
            "no styles at all\nsecond line",
            "\n\n\n",
            "x",
            "",
            "\x1b[31m",
            "\x1b[7m\n\x1b[0m",
        ];
        for (fi, input) in fixed.iter().enumerate() {
            for ck in [0u64, 5, 11, 16] {
                let tc = make_cfg(ck);
                st.eval();
                st.nontrivial_hash(hash64(format!("{input}{tc:?}").as_bytes()));
                st.count("fixed_small_captures");
                match document(3_000_000_000 + (fi as u64) * 100 + ck, input, &tc) {
                    Ok(d) => writeln!(out, "{}", d.to_string()).expect("write"),
                    Err(p) => st.viol("c14:panic", format!("render_svg panicked: {p}"), Case::new("c14").b(input.as_bytes()).n(ck as i64)),
                }
            }
        }
    }
    // one capture larger than 1 MiB with CR LF line endings, a CR sitting on byte 2^20 - 1 (block sizes inside the renderer)
    if cfg.tier != Tier::Tiny && pi == 0 {
        let mut doc = String::from("Z");
        for l in 0..16_500u32 {
            let styled = l % 97 == 0;
            let body = format!("{:062}", l);
            if styled {
                doc.push_str("\x1b[32m");
                doc.push_str(&body[9..]);
                doc.push_str("\x1b[0m");
            } else {
                doc.push_str(&body);
            }
            doc.push_str("\r\n");
        }
        assert_eq!(doc.as_bytes()[(1 << 20) - 1], b'\r', "harness: the carriage return is not on the block boundary");
        let tc = make_cfg(3);
        st.eval();
        st.nontrivial_hash(hash64(doc.as_bytes()));
        st.count("documents_larger_than_1_mib");
        match document(2_000_000_000, &doc, &tc) {
            Ok(d) => writeln!(out, "{}", d.to_string()).expect("write"),
            Err(p) => st.viol("c14:panic", format!("render_svg panicked: {p}"), Case::new("c14").b(&doc.as_bytes()[..200]).n(3)),
        }
    }
    let mut i = pi;
    while i < n {
        let input = gen_input(cfg.seed, i, items);
        let tc = make_cfg(i);
        st.eval();
        if input.contains('\x1b') {
            st.nontrivial_hash(hash64(format!("{input}{tc:?}").as_bytes()));
        }
        match document(i, &input, &tc) {
            Ok(doc) => {
                writeln!(out, "{}", doc.to_string()).expect("write");
            }
            Err(p) => st.viol("c14:panic", format!("render_svg panicked: {p}"), Case::new("c14").b(input.as_bytes()).n(i as i64)),
        }
        i += pn;
    }
    out.flush().expect("flush");
    st
}

/// replay: regenerate one document (given its input and configuration index) to stdout for the offline checker
pub fn replay(case: &Case) -> Result<String, Viol> {
    let b = case.bytes.first().cloned().unwrap_or_default();
    let input = String::from_utf8_lossy(&b).into_owned();
    let k = case.nums.first().copied().unwrap_or(0) as u64;
    match document(k, &input, &make_cfg(k)) {
        Ok(doc) => Ok(doc.to_string()),
        Err(p) => Err(Viol { case: case.clone(), msg: format!("render_svg panicked: {p}"), sig: "c14:panic".into() }),
    }
}
