//! C12 — the LS_COLORS parser applies SGR codes left to right.
use crate::adapt::state_of;
use crate::{par, Case, Cfg, Stats, Tier, Viol};
use refmodel::json::{show, J};
use refmodel::rng::{hash64, Rng};
use refmodel::sgr::{fx, Col, SgrState};

#[derive(Debug, Clone, PartialEq, Eq)]
pub enum Expect {
    NoStyle,
    Style(SgrState),
    /// outside the statement (signs, truncated extended-colour forms): no-panic only
    Unspecified,
}

fn field(f: &str) -> Result<u8, bool> {
    // Ok(value) | Err(unspecified?)
    if f.is_empty() || !f.bytes().all(|b| b.is_ascii_digit()) {
        let signed = f.strip_prefix('+').map_or(false, |r| !r.is_empty() && r.bytes().all(|b| b.is_ascii_digit()));
        return Err(signed);
    }
    let t = f.trim_start_matches('0');
    if t.len() > 3 {
        return Err(false);
    }
    let v: u32 = if t.is_empty() { 0 } else { t.parse().unwrap() };
    if v > 255 {
        Err(false)
    } else {
        Ok(v as u8)
    }
}

pub fn model(code: &str) -> Expect {
    if code.is_empty() || code == "0" || code == "00" {
        return Expect::NoStyle;
    }
    let mut nums = vec![];
    let mut unspecified = false;
    let mut bad = false;
    for f in code.split(';') {
        match field(f) {
            Ok(v) => nums.push(v),
            Err(true) => unspecified = true,
            Err(false) => bad = true,
        }
    }
    if bad {
        return Expect::NoStyle;
    }
    if unspecified {
        return Expect::Unspecified;
    }
    let mut s = SgrState::default();
    let mut i = 0;
    while i < nums.len() {
        let c = nums[i];
        i += 1;
        match c {
            0 => s = SgrState::default(),
            1 => s.fx |= fx::BOLD,
            2 => s.fx |= fx::DIM,
            3 => s.fx |= fx::ITALIC,
            4 => s.fx |= fx::UNDERLINE,
            5 | 6 => s.fx |= fx::BLINK,
            7 => s.fx |= fx::INVERT,
            8 => s.fx |= fx::HIDDEN,
            9 => s.fx |= fx::STRIKE,
            22 => s.fx &= !(fx::BOLD | fx::DIM),
            23 => s.fx &= !fx::ITALIC,
            24 => s.fx &= !fx::UNDERLINE,
            25 => s.fx &= !fx::BLINK,
            27 => s.fx &= !fx::INVERT,
            28 => s.fx &= !fx::HIDDEN,
            29 => s.fx &= !fx::STRIKE,
            30..=37 => s.fg = Some(Col::P16(c - 30)),
            40..=47 => s.bg = Some(Col::P16(c - 40)),
            90..=97 => s.fg = Some(Col::P16(c - 90 + 8)),
            100..=107 => s.bg = Some(Col::P16(c - 100 + 8)),
            39 => s.fg = None,
            49 => s.bg = None,
            59 => s.ul = None,
            38 | 48 | 58 => {
                let col = match nums.get(i) {
                    Some(5) if i + 1 < nums.len() => {
                        let v = Col::Idx(nums[i + 1]);
                        i += 2;
                        v
                    }
                    Some(2) if i + 3 < nums.len() => {
                        let v = Col::Rgb(nums[i + 1], nums[i + 2], nums[i + 3]);
                        i += 4;
                        v
                    }
                    // truncated or unknown extended form: the statement only covers the two complete forms
                    _ => return Expect::Unspecified,
                };
                match c {
                    38 => s.fg = Some(col),
                    48 => s.bg = Some(col),
                    _ => s.ul = Some(col),
                }
            }
            _ => {}
        }
    }
    Expect::Style(s)
}

pub fn check(code: &str) -> Result<&'static str, (String, String)> {
    let want = model(code);
    let got = anstyle_ls::parse(code);
    match (want, got) {
        (Expect::Unspecified, _) => Ok("unspecified"),
        (Expect::NoStyle, None) => Ok("no_style"),
        (Expect::NoStyle, Some(g)) => Err(("c12:accepts-invalid".into(), format!("parse({:?}) = Some([{}]) but the input must give no style", code, state_of(g).describe()))),
        (Expect::Style(w), None) => Err(("c12:rejects-valid".into(), format!("parse({:?}) = None, the list denotes [{}]", code, w.describe()))),
        (Expect::Style(w), Some(g)) => {
            if state_of(g) != w {
                return Err(("c12:style".into(), format!("parse({:?}) = [{}], applying the codes in order gives [{}]", code, state_of(g).describe(), w.describe())));
            }
            Ok("style")
        }
    }
}

fn eval(s: &str, st: &mut Stats, enumerated: bool) {
    st.eval();
    if !s.is_empty() {
        if enumerated {
            st.nontrivial_enum();
        } else {
            st.nontrivial_hash(hash64(s.as_bytes()));
        }
    }
    match crate::guarded(|| check(s)) {
        Ok(Ok(kind)) => st.count(&format!("inputs_{kind}")),
        Ok(Err((sig, msg))) => st.viol(&sig, msg, Case::new("c12").b(s.as_bytes())),
        Err(p) => st.viol("c12:panic", format!("parse({:?}) panicked: {p}", s), Case::new("c12").b(s.as_bytes())),
    }
}

/// `s` evaluated after the calls `history` were made on the same thread: the result for `s` must not depend on them
fn eval_after(history: &[&str], s: &str, st: &mut Stats) {
    st.eval();
    st.count("inputs_after_history");
    let r = crate::guarded(|| {
        for h in history {
            let _ = anstyle_ls::parse(h);
        }
        check(s)
    });
    let mut case = Case::new("c12").b(s.as_bytes());
    for h in history {
        case = case.b(h.as_bytes());
    }
    let hist = || history.iter().map(|h| format!("{:?}", h)).collect::<Vec<_>>().join(", ");
    match r {
        Ok(Ok(kind)) => st.count(&format!("inputs_{kind}")),
        Ok(Err((sig, msg))) => st.viol(&sig, format!("after parse of {}: {}", hist(), msg), case),
        Err(p) => st.viol("c12:panic", format!("after parse of {}: parse({:?}) panicked: {p}", hist(), s), case),
    }
}

/// near-duplicates of a list: strings a cache key, a trimmed comparison or a packed representation could confuse with it
pub fn near_duplicates(s: &str) -> Vec<String> {
    let mut v = vec![];
    for k in 1..=3 {
        v.push(format!("{}{}", "\u{0}".repeat(k), s));
        v.push(format!("{}{}", s, "\u{0}".repeat(k)));
        v.push(format!("{}{}", "0".repeat(k), s));
    }
    for pad in [" ", "\t", "\n", "+", "-", "\u{1}", "\u{7f}", "\u{80}", "\u{ff}", "\u{100}", ":", ";"] {
        v.push(format!("{pad}{s}"));
        v.push(format!("{s}{pad}"));
    }
    // the same bytes in another order, one byte changed, one byte more or less
    v.push(s.chars().rev().collect());
    if s.len() > 1 {
        v.push(s[1..].to_string());
        v.push(s[..s.len() - 1].to_string());
        let mut b: Vec<char> = s.chars().collect();
        b.swap(0, 1);
        v.push(b.into_iter().collect());
    }
    v.push(format!("{s}{s}"));
    v.push(format!("{s};{s}"));
    v.push(s.replace(';', ":"));
    v.push(s.replace(';', ";;"));
    v
}

/// code "units": every single code 0..=110 plus complete extended forms for each slot
pub fn units() -> Vec<String> {
    let mut v: Vec<String> = (0..=110).map(|c| c.to_string()).collect();
    for t in [38, 48, 58] {
        v.push(format!("{t};5;0"));
        v.push(format!("{t};5;15"));
        v.push(format!("{t};5;255"));
        v.push(format!("{t};2;0;0;0"));
        v.push(format!("{t};2;1;2;3"));
        v.push(format!("{t};2;255;128;0"));
    }
    v
}

pub const SUBSET40: [u8; 40] = [0, 1, 2, 3, 4, 5, 6, 7, 8, 9, 21, 22, 23, 24, 25, 26, 27, 28, 29, 30, 31, 37, 39, 40, 47, 49, 59, 90, 97, 100, 107, 108, 10, 50, 60, 89, 98, 99, 110, 255];

pub fn run(cfg: &Cfg) -> Stats {
    let (three_full, nrand, nbad) = match cfg.tier {
        Tier::Tiny => (false, 100u64, 50u64),
        Tier::Quick => (false, 50_000, 20_000),
        Tier::Thorough => (true, 2_000_000, 500_000),
    };
    let us = units();
    let mut st = par(cfg, |shard, n| {
        let mut st = Stats::new();
        let mut k = 0u64;
        let mut mine = || {
            k += 1;
            k % n == shard
        };
        if mine() {
            eval("", &mut st, true);
        }
        for a in &us {
            if mine() {
                eval(a, &mut st, true);
            }
            if mine() {
                eval(&format!("0{a}"), &mut st, true);
            }
            for b in &us {
                if mine() {
                    eval(&format!("{a};{b}"), &mut st, true);
                }
            }
        }
        // every value 0..=255 in every position of the extended-colour forms, alone and followed by another code
        for t in [38u32, 48, 58] {
            for v in 0..=255u32 {
                if !mine() {
                    continue;
                }
                let (a, b) = ((v * 7 + 13) % 256, (v * 31 + 101) % 256);
                for s in [
                    format!("{t};5;{v}"),
                    format!("{t};5;{v};1"),
                    format!("4;{t};2;{v};{a};{b}"),
                    format!("{t};2;{a};{v};{b};7"),
                    format!("{t};2;{b};{a};{v}"),
                    format!("{t};2;{b};{a};{v};{t};5;{a}"),
                ] {
                    eval(&s, &mut st, true);
                }
            }
        }
        // values that only fit 0..=255 after wrapping at 2^8 / 2^16 / 2^32 / 2^64: an out-of-range code, so no style
        for base in [1u128 << 8, 1 << 16, 1 << 31, 1 << 32, 1 << 63, 1 << 64] {
            for kk in 0..=255u128 {
                if !mine() {
                    continue;
                }
                let v = base + kk;
                for s in [format!("{v}"), format!("1;{v}"), format!("38;5;{v}"), format!("48;2;1;{v};3")] {
                    eval(&s, &mut st, true);
                }
            }
        }
        // lists of every length up to 400 codes (list-length thresholds), ending in a plain code or an extended form
        for len in 1..=400usize {
            if !mine() {
                continue;
            }
            for (fill, tail) in [("1", "31;4"), ("0", "38;2;1;2;3"), ("22", "48;5;208;9")] {
                let mut s = String::new();
                for _ in 0..len {
                    s.push_str(fill);
                    s.push(';');
                }
                s.push_str(tail);
                eval(&s, &mut st, true);
            }
        }
        // the same call repeated after a rejected input (results must not depend on earlier calls)
        if mine() {
            // ... nor on what an earlier call left unread (lists that stop being interpreted half way)
            for (first, then) in [("38;9;9;1;4", "31"), ("48;7;1;2;3;4", "0;1"), ("58;3;9;9", "4"), ("38;2;1", "32"), ("1;38", "7"), ("38;9;9;1;4;256", "31")] {
                for s in [first, then, then, first, first, then] {
                    eval(s, &mut st, true);
                }
            }
            for (good, bad) in [("01;31", "01;3x"), ("38;5;208", "38;5;2080"), ("4", "")] {
                for s in [good, bad, bad, good, bad, good, good] {
                    eval(s, &mut st, true);
                }
            }
        }
        // near-duplicates on one thread, in both orders and with the original in between (results must not depend on
        // which of two similar strings this thread saw first); the well-formed lists are short ones and a few long ones
        {
            let mut bases: Vec<String> = vec!["1".into(), "01".into(), "4".into(), "31".into(), "01;31".into(), "1;31".into(), "38;5;1".into(), "38;5;208".into(), "7;7;7;7".into(), "255".into(), "0;1".into(), "1;0;4".into(), "48;2;1;2;3".into(), "01;38;5;208;48;2;1;2;3;22".into()];
            for c in SUBSET40 {
                bases.push(c.to_string());
                bases.push(format!("{c};{}", 107 - (c % 100)));
            }
            for base in &bases {
                if !mine() {
                    continue;
                }
                for d in near_duplicates(base) {
                    eval_after(&[], base, &mut st);
                    eval_after(&[base], &d, &mut st);
                    eval_after(&[base, &d], base, &mut st);
                    eval_after(&[base, &d, base], &d, &mut st);
                    eval_after(&[&d, &d], base, &mut st);
                }
            }
            // two different well-formed lists whose texts are permutations / extensions of each other
            for (a, b) in [("1;3", "3;1"), ("13", "31"), ("1;31", "31;1"), ("38;5;1", "38;5;10"), ("38;5;10", "38;5;100"), ("4;24", "24;4"), ("1", "10"), ("10", "100"), ("48;5;7", "48;5;70"), ("30;40", "40;30")] {
                if !mine() {
                    continue;
                }
                for (x, y) in [(a, b), (b, a)] {
                    eval_after(&[x], y, &mut st);
                    eval_after(&[x, y], x, &mut st);
                    eval_after(&[x, x, y, y], x, &mut st);
                }
            }
        }
        if three_full {
            for a in 0..=110u32 {
                for b in 0..=110u32 {
                    if !mine() {
                        continue;
                    }
                    for c in 0..=110u32 {
                        eval(&format!("{a};{b};{c}"), &mut st, true);
                    }
                }
            }
        } else {
            for a in SUBSET40 {
                for b in SUBSET40 {
                    if !mine() {
                        continue;
                    }
                    for c in SUBSET40 {
                        eval(&format!("{a};{b};{c}"), &mut st, true);
                    }
                }
            }
        }
        // random well-formed lists up to 40 codes with leading zeros
        let mut i = shard;
        while i < nrand {
            let mut rng = Rng::new(cfg.seed, 0xC12_0000_0000 + i);
            let len = rng.range(1, 40);
            let mut s = String::new();
            for j in 0..len {
                if j > 0 {
                    s.push(';');
                }
                let u = match rng.below(8) {
                    0 | 1 => us[rng.below(us.len() as u64) as usize].clone(),
                    2 => format!("{};5;{}", rng.pick(&[38u32, 48, 58]), rng.below(256)),
                    3 => format!("{};2;{};{};{}", rng.pick(&[38u32, 48, 58]), rng.below(256), rng.below(256), rng.below(256)),
                    4 => rng.below(256).to_string(),
                    _ => rng.pick(&SUBSET40).to_string(),
                };
                for (fi, f) in u.split(';').enumerate() {
                    if fi > 0 {
                        s.push(';');
                    }
                    match rng.below(12) {
                        0 | 1 => s.push('0'),
                        2 | 3 => s.push_str("000"),
                        4 => s.push_str(&"0".repeat(rng.range(4, 30) as usize)),
                        _ => {}
                    }
                    s.push_str(f);
                }
            }
            if i < 3 {
                st.sample(6, || {
                    let mut o = J::obj();
                    o.set("origin", J::s("random well-formed list"));
                    o.set("input", J::s(&s));
                    o.set("denotes", J::s(format!("{:?}", model(&s))));
                    o
                });
            }
            eval(&s, &mut st, false);
            i += n;
        }
        // malformed
        let mut i = shard;
        while i < nbad {
            let mut rng = Rng::new(cfg.seed, 0xC12_8000_0000 + i);
            let len = rng.range(1, 6);
            let mut s = String::new();
            for j in 0..len {
                if j > 0 {
                    s.push(';');
                }
                match rng.below(14) {
                    0 => {}
                    1 => s.push_str("+5"),
                    2 => s.push_str("-1"),
                    3 => s.push_str(" 1"),
                    4 => s.push_str("1 "),
                    5 => s.push_str("256"),
                    6 => s.push_str("999999999999"),
                    7 => s.push_str("\u{ff11}"),
                    8 => s.push_str("1\u{e9}"),
                    9 => s.push_str("38"),
                    10 => s.push_str("38;5"),
                    11 => s.push_str("48;2;1;2"),
                    12 => s.push_str("0x1f"),
                    _ => s.push_str(&rng.below(120).to_string()),
                }
            }
            if rng.chance(1, 10) {
                s.push(';');
            }
            if rng.chance(1, 10) {
                s.push(':');
            }
            eval(&s, &mut st, false);
            i += n;
        }
        st
    });
    st.exhaustive_parts.push(format!(
        "all lists of 1 and 2 units over the codes 0..=110 plus 18 complete extended-colour forms; all lists of 3 codes over {}",
        if three_full { "0..=110" } else { "a 40-code subset" }
    ));
    st.sample(8, || {
        let mut o = J::obj();
        o.set("origin", J::s("fixed example"));
        o.set("input", J::s(show(b"01;38;5;208;48;2;1;2;3;22")));
        o.set("denotes", J::s(format!("{:?}", model("01;38;5;208;48;2;1;2;3;22"))));
        o
    });
    st
}

pub fn replay(case: &Case) -> Result<String, Viol> {
    let b = case.bytes.first().cloned().unwrap_or_default();
    let s = String::from_utf8_lossy(&b).into_owned();
    let history: Vec<String> = case.bytes.iter().skip(1).map(|h| String::from_utf8_lossy(h).into_owned()).collect();
    match crate::guarded(|| {
        for h in &history {
            let _ = anstyle_ls::parse(h);
        }
        check(&s)
    }) {
        Ok(Ok(k)) => Ok(format!("{k}: parser and interpreter agree")),
        Ok(Err((sig, msg))) => Err(Viol { case: case.clone(), msg, sig }),
        Err(p) => Err(Viol { case: case.clone(), msg: format!("parse({:?}) panicked: {p}", s), sig: "c12:panic".into() }),
    }
}
