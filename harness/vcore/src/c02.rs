//! C02 — the parser reports exactly the events of the VT500 state machine.
use crate::adapt::{first_diff, real_parse, Recorder};
use crate::{par, Case, Cfg, Stats, Tier, Viol};
use anstyle_parse::state::{state_change, Action, State};
use refmodel::gen;
use refmodel::json::{show, J};
use refmodel::rng::{hash64, Rng};
use refmodel::vt::{self, Ev, Policy, RefVt, St, ALL_ST, N_SLOTS};

fn map_state(s: State) -> Option<St> {
    Some(match s {
        State::CsiEntry => St::CsiEntry,
        State::CsiIgnore => St::CsiIgnore,
        State::CsiIntermediate => St::CsiInt,
        State::CsiParam => St::CsiParam,
        State::DcsEntry => St::DcsEntry,
        State::DcsIgnore => St::DcsIgnore,
        State::DcsIntermediate => St::DcsInt,
        State::DcsParam => St::DcsParam,
        State::DcsPassthrough => St::DcsPass,
        State::Escape => St::Escape,
        State::EscapeIntermediate => St::EscInt,
        State::Ground => St::Ground,
        State::OscString => St::Osc,
        State::SosPmApcString => St::Sos,
        State::Anywhere | State::Utf8 => return None,
    })
}

fn unmap_state(s: St) -> State {
    match s {
        St::CsiEntry => State::CsiEntry,
        St::CsiIgnore => State::CsiIgnore,
        St::CsiInt => State::CsiIntermediate,
        St::CsiParam => State::CsiParam,
        St::DcsEntry => State::DcsEntry,
        St::DcsIgnore => State::DcsIgnore,
        St::DcsInt => State::DcsIntermediate,
        St::DcsParam => State::DcsParam,
        St::DcsPass => State::DcsPassthrough,
        St::Escape => State::Escape,
        St::EscInt => State::EscapeIntermediate,
        St::Ground => State::Ground,
        St::Osc => State::OscString,
        St::Sos => State::SosPmApcString,
    }
}

fn action_class(a: Action) -> &'static str {
    match a {
        Action::Nop | Action::Ignore => "none",
        Action::Print => "print",
        Action::Execute => "execute",
        Action::CsiDispatch => "csi_dispatch",
        Action::EscDispatch => "esc_dispatch",
        Action::Put => "put",
        Action::Collect => "collect",
        Action::Param => "param",
        Action::OscPut => "osc_put",
        Action::BeginUtf8 => "begin_utf8",
        Action::Clear => "clear",
        Action::Hook => "hook",
        Action::Unhook => "unhook",
        Action::OscStart => "osc_start",
        Action::OscEnd => "osc_end",
    }
}

fn expected_class(ev: &[Ev], mid: bool, trace: &[&'static str]) -> &'static str {
    if mid {
        return "begin_utf8";
    }
    for e in ev {
        match e {
            Ev::Print(_) => return "print",
            Ev::Execute(_) => return "execute",
            Ev::Csi { .. } => return "csi_dispatch",
            Ev::Esc { .. } => return "esc_dispatch",
            Ev::Put(_) => return "put",
            // Hook / Unhook / Osc are entry / exit actions of the states involved, not the transition's action
            _ => {}
        }
    }
    trace.first().copied().unwrap_or("none")
}

/// The full transition function, cell by cell, against the reference machine.
fn check_cells(st: &mut Stats) {
    let mut compared = 0u64;
    for &s in ALL_ST.iter() {
        for b in 0..=255u8 {
            st.eval();
            compared += 1;
            let (rs, ra) = state_change(unmap_state(s), b);
            let (es, ev, mid, trace) = vt::cell(s, b);
            let want_class = expected_class(&ev, mid, &trace);
            let got_class = action_class(ra);
            let got_state = if mid_state(rs) { None } else if rs == State::Anywhere { Some(s) } else { map_state(rs) };
            let ok_state = if mid { rs == State::Utf8 } else { got_state == Some(es) };
            if !ok_state || want_class != got_class {
                st.viol(
                    "c02:cell",
                    format!(
                        "state_change({:?}, {b:#04x}) = ({rs:?}, {ra:?}); the reference machine goes to {es:?}{} with action {want_class}",
                        unmap_state(s),
                        if mid { " (inside a UTF-8 character)" } else { "" }
                    ),
                    Case::new("c02-cell").n(s as i64).n(b as i64),
                );
            }
        }
    }
    // anywhere row: only CAN, SUB, ESC have transitions
    for b in 0..=255u8 {
        st.eval();
        compared += 1;
        let (rs, ra) = state_change(State::Anywhere, b);
        let want: (State, &str) = match b {
            0x18 | 0x1a => (State::Ground, "execute"),
            0x1b => (State::Escape, "none"),
            _ => (State::Anywhere, "none"),
        };
        if rs != want.0 || action_class(ra) != want.1 {
            st.viol(
                "c02:cell",
                format!("state_change(Anywhere, {b:#04x}) = ({rs:?}, {ra:?}), expected ({:?}, {})", want.0, want.1),
                Case::new("c02-cell").n(-1).n(b as i64),
            );
        }
    }
    st.add("table_cells_compared", compared);
    st.nontrivial_enumerated += compared;
    st.notes.push("the Utf8 row of the table (256 cells) is never consulted by the parser or the adapters (UTF-8 is handled out of band) and is not compared".into());
}

fn mid_state(s: State) -> bool {
    s == State::Utf8
}

const CLASS_BOUNDS: [u8; 31] = [
    0x00, 0x07, 0x08, 0x18, 0x19, 0x1a, 0x1b, 0x1c, 0x20, 0x30, 0x3a, 0x3b, 0x3c, 0x40, 0x50, 0x51, 0x58, 0x59, 0x5b, 0x5c, 0x5d, 0x5e, 0x60, 0x7f,
    0x80, 0x90, 0x91, 0x9b, 0x9c, 0x9d, 0xc2,
];
pub const N_CLASSES: usize = CLASS_BOUNDS.len() + 2; // + e0.., f5..

fn byte_class(b: u8) -> usize {
    if b >= 0xf5 {
        return N_CLASSES - 1;
    }
    if b >= 0xe0 {
        return N_CLASSES - 2;
    }
    let mut c = 0;
    for (i, lo) in CLASS_BOUNDS.iter().enumerate() {
        if b >= *lo {
            c = i;
        }
    }
    c
}

fn note_event_coverage(ev: &[Ev], st: &mut Stats) {
    for e in ev {
        match e {
            Ev::Csi { params, inter, ignore, .. } | Ev::Hook { params, inter, ignore, .. } => {
                let n: usize = params.iter().map(|g| g.len()).sum();
                if *ignore {
                    st.count("dispatch_with_ignore_flag");
                }
                if n == 32 && !*ignore {
                    st.count("dispatch_with_exactly_32_numbers");
                }
                if n == 32 && *ignore {
                    st.count("dispatch_with_more_than_32_numbers");
                }
                if inter.len() == 2 && !*ignore {
                    st.count("dispatch_with_exactly_2_intermediates");
                }
                if params.iter().any(|g| g.len() > 1) {
                    st.count("dispatch_with_subparameters");
                }
                if params.iter().any(|g| g.contains(&65535)) {
                    st.count("dispatch_with_saturated_value");
                }
            }
            Ev::Osc { params, bell } => {
                if params.len() == 16 {
                    st.count("osc_with_16_fields");
                }
                if *bell {
                    st.count("osc_bell_terminated");
                } else {
                    st.count("osc_other_terminated");
                }
            }
            Ev::Esc { ignore, .. } => {
                if *ignore {
                    st.count("esc_dispatch_with_ignore_flag");
                }
            }
            _ => {}
        }
    }
}

pub fn compare_stream(data: &[u8], st: Option<&mut Stats>) -> Result<(), (String, String)> {
    let real: Recorder = real_parse(data);
    let mut r = RefVt::new(Policy::Consume);
    if let Some(st) = st {
        let mut seen = [[false; N_CLASSES]; N_SLOTS];
        for &b in data {
            seen[r.slot()][byte_class(b)] = true;
            r.step(b);
        }
        for (s, row) in seen.iter().enumerate() {
            for (c, v) in row.iter().enumerate() {
                if *v {
                    st.arr_add("state_x_byteclass_streams", s * N_CLASSES + c, N_SLOTS * N_CLASSES, 1);
                }
            }
        }
        note_event_coverage(&r.ev, st);
    } else {
        r.feed(data);
    }
    if let Some(p) = &real.params_problem {
        return Err(("c02:params-iterator".into(), p.clone()));
    }
    if !vt::events_agree(&real.ev, &r.ev, &r.osc16) {
        // a byte that cuts a multi-byte character short: the statement leaves open whether it is swallowed with the
        // character or handled on its own afterwards - both decoders are accepted (DESIGN 8.1)
        let (alt, alt16) = vt::parse_osc16(data, Policy::Reprocess);
        if std::str::from_utf8(data).is_ok() || !vt::events_agree(&real.ev, &alt, &alt16) {
            return Err(("c02:events".into(), first_diff(&real.ev, &r.ev)));
        }
    }
    // the 7-bit-only accumulator sees the same machine on 7-bit input
    if data.iter().all(|b| *b < 0x80) {
        let mut p = anstyle_parse::Parser::<anstyle_parse::AsciiParser>::new();
        let mut rec = Recorder::default();
        for &b in data {
            p.advance(&mut rec, b);
        }
        if !vt::events_agree(&rec.ev, &r.ev, &r.osc16) {
            return Err(("c02:ascii-accumulator".into(), format!("Parser<AsciiParser>: {}", first_diff(&rec.ev, &r.ev))));
        }
    }
    clone_points(data)
}

/// A clone of the parser taken at any point of the stream continues exactly like the original (every position for
/// short inputs, 12 spread positions for long ones; the parser's equality is checked too).
fn clone_points(data: &[u8]) -> Result<(), (String, String)> {
    let n = data.len();
    let pick = |k: usize| n <= 48 || k % (n / 12).max(1) == (n / 24).max(1) % (n / 12).max(1);
    let mut p = anstyle_parse::Parser::<anstyle_parse::DefaultCharAccumulator>::new();
    let mut rec = Recorder::default();
    let mut clones = vec![];
    for (k, &b) in data.iter().enumerate() {
        if k > 0 && pick(k) {
            clones.push((k, rec.ev.len(), p.clone()));
        }
        p.advance(&mut rec, b);
    }
    for (k, mark, mut c) in clones {
        let mut rc = Recorder::default();
        for &b in &data[k..] {
            c.advance(&mut rc, b);
        }
        if let Some(pr) = rc.params_problem {
            return Err(("c02:params-iterator".into(), pr));
        }
        if rc.ev[..] != rec.ev[mark..] {
            return Err(("c02:clone".into(), format!("a clone of the parser taken before byte {k} continues differently: {}", first_diff(&rc.ev, &rec.ev[mark..]))));
        }
        if c != p {
            return Err(("c02:clone".into(), format!("a clone of the parser taken before byte {k} and fed the same bytes does not compare equal to the original")));
        }
    }
    // the same snapshots restored with clone_from into parsers that were left in the middle of something else (an
    // overflowed parameter list, a third intermediate, an operating system command, a multi-byte character)
    const DIRTY: [&[u8]; 5] = [
        b"\x1b[1;2;3;4;5;6;7;8;9;10;11;12;13;14;15;16;17;18;19;20;21;22;23;24;25;26;27;28;29;30;31;32;33;34",
        b"\x1b[1 !\"",
        b"\x1b]a;b",
        b"x\xf0\x9f",
        b"\x1bP1;2:3$",
    ];
    let mut snap = anstyle_parse::Parser::<anstyle_parse::DefaultCharAccumulator>::new();
    let mut r0 = Recorder::default();
    // (the enumerated strings of up to three bytes are legion and their snapshots all look alike: one in four)
    let sum: usize = data.iter().map(|b| *b as usize).sum();
    for (k, &b) in data.iter().enumerate() {
        if k > 0 && pick(k) && (n > 3 || (sum + k) % 4 == 0) {
            let mut used = anstyle_parse::Parser::<anstyle_parse::DefaultCharAccumulator>::new();
            let mut scratch = Recorder::default();
            for &d in DIRTY[k % DIRTY.len()] {
                used.advance(&mut scratch, d);
            }
            used.clone_from(&snap);
            let mut r2 = Recorder::default();
            for &b2 in &data[k..] {
                used.advance(&mut r2, b2);
            }
            if r2.ev[..] != rec.ev[r0.ev.len()..] {
                return Err(("c02:clone".into(), format!("a parser restored with clone_from (from a snapshot taken before byte {k}, into a parser that had seen {:?}) continues differently: {}", show(DIRTY[k % DIRTY.len()]), first_diff(&r2.ev, &rec.ev[r0.ev.len()..]))));
            }
            if used != p {
                return Err(("c02:clone".into(), format!("a parser restored with clone_from before byte {k} and fed the same bytes does not compare equal to the original")));
            }
        }
        snap.advance(&mut r0, b);
    }
    Ok(())
}

/// After `prefix` + CAN/SUB the rest of the stream must be parsed as by a fresh parser.
pub fn compare_replay(prefix: &[u8], cancel: u8, stream: &[u8], st: Option<&mut Stats>) -> Result<(), (String, String)> {
    let mut p = anstyle_parse::Parser::<anstyle_parse::DefaultCharAccumulator>::new();
    let mut rec = Recorder::default();
    for &b in prefix {
        p.advance(&mut rec, b);
    }
    if let Some(st) = st {
        let mut r = RefVt::new(Policy::Consume);
        r.feed(prefix);
        st.arr("cancel_arrived_in_state", r.slot(), N_SLOTS);
    }
    p.advance(&mut rec, cancel);
    let mark = rec.ev.len();
    for &b in stream {
        p.advance(&mut rec, b);
    }
    let fresh = real_parse(stream);
    if rec.ev[mark..] != fresh.ev[..] {
        return Err(("c02:cancel-replay".into(), format!("after prefix + {cancel:#04x}: {}", first_diff(&rec.ev[mark..], &fresh.ev))));
    }
    let (want, osc16) = vt::parse_osc16(stream, Policy::Consume);
    if !vt::events_agree(&fresh.ev, &want, &osc16) {
        let (alt, alt16) = vt::parse_osc16(stream, Policy::Reprocess);
        if std::str::from_utf8(stream).is_ok() || !vt::events_agree(&fresh.ev, &alt, &alt16) {
            return Err(("c02:events".into(), first_diff(&fresh.ev, &want)));
        }
    }
    Ok(())
}

fn nontrivial(data: &[u8]) -> bool {
    data.iter().any(|b| *b < 0x20 || *b >= 0x7f)
}

fn eval_stream(data: &[u8], st: &mut Stats, enumerated: Option<bool>, origin: &str) {
    st.eval();
    if nontrivial(data) {
        match enumerated {
            Some(true) => st.nontrivial_enum(),
            Some(false) => {}
            None => st.nontrivial_hash(hash64(data)),
        }
    }
    match crate::guarded(|| compare_stream(data, Some(st))) {
        Ok(Ok(())) => {}
        Ok(Err((sig, msg))) => st.viol(&sig, format!("[{origin}] {msg}"), Case::new("c02-stream").b(data)),
        Err(p) => st.viol("c02:panic", format!("[{origin}] panicked: {p}"), Case::new("c02-stream").b(data)),
    }
}

/// a prefix that leaves the parser in the wanted state slot
fn prefix_for_slot(rng: &mut Rng, slot: usize) -> Vec<u8> {
    let mut p = if rng.chance(1, 2) { gen::gen_stream(rng, 64, false) } else { vec![] };
    // first get back to ground deterministically
    p.push(0x18);
    let tail: &[u8] = match slot {
        0 => b"ab",
        1 => b"\x1b",
        2 => b"\x1b#",
        3 => b"\x1b[",
        4 => b"\x1b[12;3",
        5 => b"\x1b[1 ",
        6 => b"\x1b[1?2",
        7 => b"\x1bP",
        8 => b"\x1bP1;2",
        9 => b"\x1bP1$",
        10 => b"\x1bP1$qdata",
        11 => b"\x1bP1$2",
        12 => b"\x1b]0;ti;tle",
        13 => b"\x1b^priv",
        _ => b"x\xf0\x9f",
    };
    p.extend_from_slice(tail);
    p
}

pub fn run(cfg: &Cfg) -> Stats {
    let (lb, lb20, nstreams, nreplay, maxlen, long_thr) = match cfg.tier {
        Tier::Tiny => (2u32, 2u32, 40u64, 30u64, 300usize, 256usize),
        Tier::Quick => (3, 4, 50_000, 20_000, 4096, 16384),
        Tier::Thorough => (4, 5, 3_000_000, 500_000, 8192, 65536),
    };
    let mut st = par(cfg, |shard, n| {
        let mut st = Stats::new();
        if cfg.tier == Tier::Tiny && n > 1 {
            // interpreter lanes: the table comparison is a job of its own (the last shard), so that no shard is much
            // longer than the others
            if shard == n - 1 {
                check_cells(&mut st);
                return st;
            }
        } else if shard == 0 {
            check_cells(&mut st);
        }
        let bu = gen::byte_units(&gen::BYTES40);
        gen::for_each_string(&bu, lb, shard, n, |s, _| eval_stream(s, &mut st, Some(true), "bytes40"));
        let bu20 = gen::byte_units(&gen::BYTES20);
        gen::for_each_string(&bu20, lb20, shard, n, |s, _| {
            let dup = s.len() <= lb as usize && s.iter().all(|b| gen::BYTES40.contains(b));
            eval_stream(s, &mut st, Some(!dup), "bytes20")
        });
        let mut i = shard;
        while i < nstreams {
            let mut rng = Rng::new(cfg.seed, 0xC02_0000_0000 + i);
            let s = if i % 10 == 9 { gen::gen_long_stream(&mut rng, long_thr, false) } else { gen::gen_stream(&mut rng, maxlen, false) };
            if i % 10 == 9 {
                st.count("long_threshold_streams");
            }
            if i < 4 {
                st.sample(8, || {
                    let mut o = J::obj();
                    o.set("origin", J::s("grammar stream"));
                    o.set("input", J::s(show(&s[..s.len().min(120)])));
                    o.set("len", J::UInt(s.len() as u64));
                    let ev = vt::parse(&s[..s.len().min(120)], Policy::Consume);
                    o.set("first_events", J::s(format!("{:?}", &ev[..ev.len().min(6)])));
                    o
                });
            }
            eval_stream(&s, &mut st, None, "stream");
            i += n;
        }
        // every lead byte with second / third bytes on the edges of the well-formed ranges (overlong forms, encoded
        // surrogates, beyond U+10FFFF, truncation by a control or an escape), followed by an ordinary sequence
        if cfg.tier == Tier::Tiny {
            // the interpreter lanes: the leads at the edges of each length class only, spread over all shards
            let mut k = 0u64;
            for lead in [0xC0u8, 0xC1, 0xC2, 0xDF, 0xE0, 0xE1, 0xED, 0xEF, 0xF0, 0xF4, 0xF5, 0xFF] {
                for second in [0x7fu8, 0x80, 0x8f, 0x90, 0x9f, 0xa0, 0xbf, 0xc0, 0x1b, 0x18] {
                    for third in [0x80u8, 0xbf, 0x41, 0x1b] {
                        k += 1;
                        if k % n != shard {
                            continue;
                        }
                        let d = [lead, second, third, b'[', b'1', b'm', b'Z', 0xe2, 0x82, 0xac, b'.'];
                        eval_stream(&d, &mut st, None, "utf8-edges");
                    }
                }
            }
        } else if shard == 0 || (n > 1 && shard == 1) {
            for lead in 0xC0u16..=0xFF {
                if n > 1 && (lead as u64) % 2 != shard % 2 {
                    continue;
                }
                for second in [0x7fu8, 0x80, 0x8f, 0x90, 0x9f, 0xa0, 0xbf, 0xc0, 0x1b, 0x18] {
                    for third in [0x80u8, 0xbf, 0x41, 0x1b, 0x18, 0x9c] {
                        let d = [lead as u8, second, third, b'[', b'1', b'm', b'Z', 0xe2, 0x82, 0xac, b'.'];
                        eval_stream(&d, &mut st, None, "utf8-edges");
                    }
                }
            }
        }
        // every parameter / sub-parameter value around the saturation point
        if shard == 0 {
            let sweep = if cfg.tier == Tier::Tiny { 65534u32..=65536 } else { 65500u32..=65560 };
            for v in sweep {
                for form in [format!("\x1b[{v}m"), format!("\x1b[1;{v};2m"), format!("\x1b[4:{v}m"), format!("\x1bP{v};1q\x1b\\"), format!("\x1b[0{v}m"), format!("\x1b[{v}0m")] {
                    eval_stream(form.as_bytes(), &mut st, None, "saturation");
                }
            }
        }
        // very long strings (offsets that do not fit 8 / 12 / 16 bits), each followed by a short second string
        if cfg.tier != Tier::Tiny {
            let sizes: [usize; 14] = [255, 256, 257, 4095, 4096, 4097, 5000, 8192, 65534, 65535, 65536, 65537, 70000, 131075];
            for (k, size) in sizes.iter().enumerate() {
                for kind in 0..9u64 {
                    if (k as u64 * 9 + kind) % n != shard {
                        continue;
                    }
                    let mut rng = Rng::new(cfg.seed, 0xC02_4000_0000 + k as u64 * 9 + kind);
                    let mut s: Vec<u8> = b"a".to_vec();
                    match kind {
                        0 => {
                            s.extend_from_slice(b"\x1b]52;c;");
                            for _ in 0..*size {
                                s.push(rng.range(0x20, 0x7e) as u8);
                            }
                            s.extend_from_slice(if k % 2 == 0 { b"\x07" } else { b"\x18" });
                        }
                        1 => {
                            s.extend_from_slice(b"\x1b]1337;");
                            for _ in 0..*size {
                                s.push(b'x');
                            }
                            s.extend_from_slice(b";tail\x1b\\");
                        }
                        2 => {
                            s.extend_from_slice(b"\x1bP1;2$q");
                            for _ in 0..(*size).min(20000) {
                                s.push(rng.range(0x20, 0x7e) as u8);
                            }
                            s.extend_from_slice(b"\x1b\\");
                        }
                        3 => {
                            for _ in 0..(*size).min(20000) {
                                s.extend_from_slice("\u{e9}x".as_bytes());
                            }
                        }
                        4 => {
                            // one parameter of `size` digits (then a second, ordinary one)
                            s.extend_from_slice(b"\x1b[");
                            for j in 0..(*size).min(20000) {
                                s.push(b'0' + ((j * 7 + k) % 10) as u8);
                            }
                            s.extend_from_slice(b";5m");
                        }
                        5 => {
                            // `size` intermediates (after a private marker) in a CSI, an ESC and a DCS sequence
                            let n_int = (*size).min(20000);
                            s.extend_from_slice(b"\x1b[?1");
                            s.extend(std::iter::repeat(b' ').take(n_int));
                            s.extend_from_slice(b"q\x1b(#");
                            s.extend(std::iter::repeat(b'!').take(n_int));
                            s.extend_from_slice(b"B\x1bP1");
                            s.extend(std::iter::repeat(b'$').take(n_int));
                            s.extend_from_slice(b"q\x1b\\");
                        }
                        6 => {
                            // `size` parameters
                            s.extend_from_slice(b"\x1b[1");
                            for _ in 0..(*size).min(20000) {
                                s.extend_from_slice(b";1");
                            }
                            s.extend_from_slice(b"m\x1bP2");
                            for _ in 0..(*size).min(20000) {
                                s.extend_from_slice(b";2");
                            }
                            s.extend_from_slice(b"q\x1b\\");
                        }
                        7 => {
                            // `size` sub-parameters
                            s.extend_from_slice(b"\x1b[4");
                            for _ in 0..(*size).min(20000) {
                                s.extend_from_slice(b":3");
                            }
                            s.extend_from_slice(b";1m");
                        }
                        _ => {
                            // `size` OSC fields
                            s.extend_from_slice(b"\x1b]0");
                            for _ in 0..(*size).min(20000) {
                                s.extend_from_slice(b";f");
                            }
                            s.extend_from_slice(b"\x07");
                        }
                    }
                    s.extend_from_slice(b"b\x1b]0;title\x07c\x1b[1;2md\x1bP0q#\x1b\\e");
                    st.count("very_long_string_streams");
                    eval_stream(&s, &mut st, None, "very-long");
                }
            }
        }
        let mut i = shard;
        while i < nreplay {
            let mut rng = Rng::new(cfg.seed, 0xC02_8000_0000 + i);
            let slot = (i % N_SLOTS as u64) as usize;
            let prefix = prefix_for_slot(&mut rng, slot);
            let stream = gen::gen_stream(&mut rng, 256, false);
            let cancel = if rng.chance(1, 2) { 0x18 } else { 0x1a };
            st.eval();
            let mut key = prefix.clone();
            key.push(cancel);
            key.extend_from_slice(&stream);
            st.nontrivial_hash(hash64(&key));
            if i < 2 {
                st.sample(10, || {
                    let mut o = J::obj();
                    o.set("origin", J::s("cancel replay"));
                    o.set("prefix", J::s(show(&prefix)));
                    o.set("cancel", J::UInt(cancel as u64));
                    o.set("stream", J::s(show(&stream[..stream.len().min(80)])));
                    o
                });
            }
            match crate::guarded(|| compare_replay(&prefix, cancel, &stream, Some(&mut st))) {
                Ok(Ok(())) => {}
                Ok(Err((sig, msg))) => st.viol(&sig, msg, Case::new("c02-replay").b(&prefix).b(&stream).n(cancel as i64)),
                Err(p) => st.viol("c02:panic", format!("panicked: {p}"), Case::new("c02-replay").b(&prefix).b(&stream).n(cancel as i64)),
            }
            i += n;
        }
        st
    });
    st.exhaustive_parts.push("all 14x256 cells of the transition function + the 256 anywhere cells".into());
    st.exhaustive_parts.push(format!("all strings of <= {lb} bytes over BYTES40"));
    st.exhaustive_parts.push(format!("all strings of <= {lb20} bytes over BYTES20"));
    if let Some(m) = st.arrays.get("state_x_byteclass_streams") {
        let nz = m.iter().filter(|x| **x > 0).count() as u64;
        st.counters.insert("state_x_byteclass_pairs_exercised".into(), nz);
        st.counters.insert("state_x_byteclass_pairs_total".into(), (N_SLOTS * N_CLASSES) as u64);
    }
    st
}

pub fn replay(case: &Case) -> Result<String, Viol> {
    let r = match case.kind.as_str() {
        "c02-cell" => {
            let mut st = Stats::new();
            check_cells(&mut st);
            match st.viols.into_iter().next() {
                None => Ok(()),
                Some((sig, (_, v))) => Err((sig, v[0].msg.clone())),
            }
        }
        "c02-replay" => {
            let prefix = case.bytes.first().cloned().unwrap_or_default();
            let stream = case.bytes.get(1).cloned().unwrap_or_default();
            let cancel = case.nums.first().copied().unwrap_or(0x18) as u8;
            match crate::guarded(|| compare_replay(&prefix, cancel, &stream, None)) {
                Ok(r) => r,
                Err(p) => Err(("c02:panic".into(), p)),
            }
        }
        _ => {
            let data = case.bytes.first().cloned().unwrap_or_default();
            match crate::guarded(|| compare_stream(&data, None)) {
                Ok(r) => r,
                Err(p) => Err(("c02:panic".into(), p)),
            }
        }
    };
    match r {
        Ok(()) => Ok("parser callbacks equal the reference machine's events".into()),
        Err((sig, msg)) => Err(Viol { case: case.clone(), msg, sig }),
    }
}
