//! C11 — the git colour parser accepts exactly git's syntax and denotes the right style.
use crate::adapt::state_of;
use crate::{par, Case, Cfg, Stats, Tier, Viol};
use refmodel::json::{show, J};
use refmodel::rng::{hash64, Rng};
use refmodel::sgr::{fx, Col, SgrState};

#[derive(Debug, Clone, PartialEq, Eq)]
pub enum Expect {
    Style(SgrState),
    Extra(String),
    Unknown(String),
    /// the statement does not settle this input (signs, exotic case folding): only "no panic" is checked
    Unspecified,
}

/// Unicode White_Space (the documented separator set of "any whitespace")
fn is_ws(c: char) -> bool {
    matches!(c, '\u{9}'..='\u{d}' | ' ' | '\u{85}' | '\u{a0}' | '\u{1680}' | '\u{2000}'..='\u{200a}' | '\u{2028}' | '\u{2029}' | '\u{202f}' | '\u{205f}' | '\u{3000}')
}

const NAMES8: [&str; 8] = ["black", "red", "green", "yellow", "blue", "magenta", "cyan", "white"];
const ATTRS: [(&str, u16); 7] = [("bold", fx::BOLD), ("dim", fx::DIM), ("ul", fx::UNDERLINE), ("blink", fx::BLINK), ("reverse", fx::INVERT), ("italic", fx::ITALIC), ("strike", fx::STRIKE)];

enum Word {
    Attr(u16, bool),
    Color(Option<Col>),
    Unknown,
    Unspecified,
}

fn hexval(c: u8) -> Option<u8> {
    match c {
        b'0'..=b'9' => Some(c - b'0'),
        b'a'..=b'f' => Some(c - b'a' + 10),
        b'A'..=b'F' => Some(c - b'A' + 10),
        _ => None,
    }
}

fn classify(word: &str) -> Word {
    if !word.is_ascii() {
        // letters whose Unicode lower-casing lands in ASCII (KELVIN SIGN) make the case rule ambiguous
        if word.chars().any(|c| !c.is_ascii() && c.to_lowercase().any(|l| l.is_ascii())) {
            return Word::Unspecified;
        }
        return Word::Unknown;
    }
    let w = word.to_ascii_lowercase();
    for (name, bit) in ATTRS {
        if w == name {
            return Word::Attr(bit, true);
        }
        if w.strip_prefix("no-") == Some(name) || w.strip_prefix("no") == Some(name) {
            return Word::Attr(bit, false);
        }
    }
    if w == "normal" || w == "-1" {
        return Word::Color(None);
    }
    if let Some(i) = NAMES8.iter().position(|n| *n == w) {
        return Word::Color(Some(Col::P16(i as u8)));
    }
    if let Some(hex) = w.strip_prefix('#') {
        let h = hex.as_bytes();
        let d: Option<Vec<u8>> = h.iter().map(|c| hexval(*c)).collect();
        return match (h.len(), d) {
            (3, Some(d)) => Word::Color(Some(Col::Rgb(d[0], d[1], d[2]))),
            (6, Some(d)) => Word::Color(Some(Col::Rgb(d[0] * 16 + d[1], d[2] * 16 + d[3], d[4] * 16 + d[5]))),
            _ => Word::Unknown,
        };
    }
    if !w.is_empty() && w.bytes().all(|b| b.is_ascii_digit()) {
        let t = w.trim_start_matches('0');
        if t.len() <= 3 {
            let v: u32 = if t.is_empty() { 0 } else { t.parse().unwrap() };
            if v <= 255 {
                return Word::Color(Some(Col::Idx(v as u8)));
            }
        }
        return Word::Unknown;
    }
    // a sign in front of a number: accepted by strtol-style parsers, not settled by the statement
    if let Some(rest) = w.strip_prefix('+') {
        if !rest.is_empty() && rest.bytes().all(|b| b.is_ascii_digit()) {
            return Word::Unspecified;
        }
    }
    Word::Unknown
}

pub fn model(s: &str) -> Expect {
    let mut st = SgrState::default();
    let mut ncol = 0;
    // the first problem in word order decides
    for word in s.split(is_ws).filter(|w| !w.is_empty()) {
        match classify(word) {
            Word::Unspecified => return Expect::Unspecified,
            Word::Attr(bit, on) => {
                if on {
                    st.fx |= bit
                } else {
                    st.fx &= !bit
                }
            }
            Word::Color(c) => {
                match ncol {
                    0 => st.fg = c,
                    1 => st.bg = c,
                    _ => return Expect::Extra(word.to_string()),
                }
                ncol += 1;
            }
            Word::Unknown => return Expect::Unknown(word.to_string()),
        }
    }
    Expect::Style(st)
}

/// every word of the description that is not part of the syntax, with its class (true = a colour beyond the second);
/// None when a word is one the statement does not settle
fn offenders(s: &str) -> Option<Vec<(bool, String)>> {
    let mut v = vec![];
    let mut ncol = 0;
    for word in s.split(is_ws).filter(|w| !w.is_empty()) {
        match classify(word) {
            Word::Unspecified => return None,
            Word::Attr(..) => {}
            Word::Color(_) => {
                if ncol >= 2 {
                    v.push((true, word.to_string()));
                } else {
                    ncol += 1;
                }
            }
            Word::Unknown => v.push((false, word.to_string())),
        }
    }
    Some(v)
}

pub fn check(s: &str) -> Result<&'static str, (String, String)> {
    let want = model(s);
    let got = anstyle_git::parse(s);
    // a description with several offending words: the statement asks for "the error that names that word" for any
    // other word - it does not say which offender is reported when there are two, so any of them (with its own class)
    // is accepted
    if let (Expect::Extra(_) | Expect::Unknown(_), Err(e)) = (&want, &got) {
        let named = match e {
            anstyle_git::Error::ExtraColor { word, .. } => Some((true, word.clone())),
            anstyle_git::Error::UnknownWord { word, .. } => Some((false, word.clone())),
            #[allow(unreachable_patterns)]
            _ => None,
        };
        if let (Some(named), Some(all)) = (named, offenders(s)) {
            if all.len() > 1 && all.contains(&named) {
                let _ = format!("{e} {e:?}");
                return Ok("rejected");
            }
        }
    }
    match (&want, &got) {
        (Expect::Unspecified, _) => Ok("unspecified"),
        (Expect::Style(w), Ok(g)) => {
            if state_of(*g) != *w {
                return Err(("c11:style".into(), format!("parse({:?}) = [{}], the words denote [{}]", s, state_of(*g).describe(), w.describe())));
            }
            Ok("accepted")
        }
        (Expect::Style(w), Err(e)) => Err(("c11:rejects-valid".into(), format!("parse({:?}) failed with {e:?}, but it is valid and denotes [{}]", s, w.describe()))),
        (Expect::Extra(word), Err(anstyle_git::Error::ExtraColor { style, word: w2 })) | (Expect::Unknown(word), Err(anstyle_git::Error::UnknownWord { style, word: w2 })) => {
            // the statement asks for "the error that names that word": the `word` payload, as the caller wrote it.  The
            // `style` payload and the wording of the message are not constrained (the message is only rendered, so that
            // a panic in it would show)
            if w2 != word {
                return Err(("c11:error-payload".into(), format!("parse({:?}) names word {:?} (style payload {:?}), expected word {:?}", s, w2, style, word)));
            }
            let _ = format!("{} {:?}", got.as_ref().unwrap_err(), got.as_ref().unwrap_err());
            Ok("rejected")
        }
        (Expect::Extra(word), Err(e)) => Err(("c11:error-variant".into(), format!("parse({:?}) = {e:?}, expected ExtraColor naming {:?}", s, word))),
        (Expect::Unknown(word), Err(e)) => Err(("c11:error-variant".into(), format!("parse({:?}) = {e:?}, expected UnknownWord naming {:?}", s, word))),
        (Expect::Extra(word), Ok(g)) | (Expect::Unknown(word), Ok(g)) => Err(("c11:accepts-invalid".into(), format!("parse({:?}) = Ok([{}]) but the word {:?} is not part of the syntax", s, state_of(*g).describe(), word))),
    }
}

/// print an expressible style in git syntax (several spellings chosen by `rng`)
pub fn print(st: SgrState, rng: &mut Rng) -> String {
    let mut words: Vec<String> = vec![];
    let col = |c: Option<Col>, rng: &mut Rng| -> String {
        match c {
            None => rng.pick(&["normal", "-1"]).to_string(),
            Some(Col::P16(n)) => NAMES8[n as usize].to_string(),
            Some(Col::Idx(n)) => n.to_string(),
            Some(Col::Rgb(r, g, b)) => {
                if r < 16 && g < 16 && b < 16 && rng.chance(1, 2) {
                    format!("#{r:x}{g:x}{b:x}")
                } else if rng.chance(1, 2) {
                    format!("#{r:02x}{g:02x}{b:02X}")
                } else {
                    format!("#{r:02X}{g:02x}{b:02x}")
                }
            }
        }
    };
    if st.fg.is_some() || st.bg.is_some() || rng.chance(1, 4) {
        words.push(col(st.fg, rng));
        if st.bg.is_some() || rng.chance(1, 4) {
            words.push(col(st.bg, rng));
        }
    }
    for (name, bit) in ATTRS {
        if st.fx & bit != 0 {
            if rng.chance(1, 4) {
                // negate first, then set again: the later word wins
                words.push(format!("no{name}"));
            }
            words.push(name.to_string());
        } else if rng.chance(1, 5) {
            if rng.chance(1, 2) {
                words.push(name.to_string());
            }
            words.push(format!("{}{name}", rng.pick(&["no", "no-"])));
        }
    }
    // attributes may come anywhere relative to colours, but colour order and attribute order (set/negate) matter
    let ncols = words.iter().take_while(|w| classify_is_color(w)).count();
    let (cols, attrs) = words.split_at(ncols);
    let mut out: Vec<String> = vec![];
    let mut ci = 0;
    let mut ai = 0;
    while ci < cols.len() || ai < attrs.len() {
        if ci < cols.len() && (ai >= attrs.len() || rng.chance(1, 2)) {
            out.push(cols[ci].clone());
            ci += 1;
        } else {
            out.push(attrs[ai].clone());
            ai += 1;
        }
    }
    let mut s = String::new();
    if rng.chance(1, 5) {
        s.push_str(*rng.pick(&[" ", "\t", "\n"]));
    }
    for (i, w) in out.iter().enumerate() {
        if i > 0 {
            s.push_str(*rng.pick(&[" ", "  ", "\t", "\n", "\r\n", "\u{c}", " \t "]));
        }
        match rng.below(4) {
            0 => s.push_str(&w.to_ascii_uppercase()),
            1 => {
                for (k, c) in w.chars().enumerate() {
                    s.push(if k % 2 == 0 { c.to_ascii_uppercase() } else { c });
                }
            }
            _ => s.push_str(w),
        }
    }
    if rng.chance(1, 5) {
        s.push(' ');
    }
    s
}

fn classify_is_color(w: &str) -> bool {
    matches!(classify(w), Word::Color(_))
}

pub fn vocabulary() -> Vec<String> {
    let mut v: Vec<String> = vec![];
    for (name, _) in ATTRS {
        v.push(name.to_string());
        v.push(format!("no{name}"));
        v.push(format!("no-{name}"));
    }
    for n in NAMES8 {
        v.push(n.to_string());
    }
    for w in ["normal", "-1", "0", "7", "255", "256", "#f00", "#0000ee", "#12345", "brightred", "default", "underline"] {
        v.push(w.to_string());
    }
    v
}

fn rand_expressible(rng: &mut Rng) -> SgrState {
    let col = |rng: &mut Rng| match rng.below(5) {
        0 => None,
        1 | 2 => Some(Col::P16(rng.below(8) as u8)),
        3 => Some(Col::Idx(rng.byte())),
        _ => {
            if rng.chance(1, 3) {
                Some(Col::Rgb(rng.below(16) as u8, rng.below(16) as u8, rng.below(16) as u8))
            } else {
                Some(Col::Rgb(rng.byte(), rng.byte(), rng.byte()))
            }
        }
    };
    let mut f = 0u16;
    for (_, bit) in ATTRS {
        if rng.chance(1, 3) {
            f |= bit;
        }
    }
    SgrState { fg: col(rng), bg: col(rng), ul: None, fx: f }
}

fn eval(s: &str, st: &mut Stats, enumerated: bool) {
    st.eval();
    if !s.trim().is_empty() {
        if enumerated {
            st.nontrivial_enum();
        } else {
            st.nontrivial_hash(hash64(s.as_bytes()));
        }
    }
    match crate::guarded(|| check(s)) {
        Ok(Ok(kind)) => st.count(&format!("inputs_{kind}")),
        Ok(Err((sig, msg))) => st.viol(&sig, msg, Case::new("c11").b(s.as_bytes())),
        Err(p) => st.viol("c11:panic", format!("parse({:?}) panicked: {p}", s), Case::new("c11").b(s.as_bytes())),
    }
}

/// `s` evaluated after the calls `history` were made on the same thread: the result must not depend on them
fn eval_after(history: &[&str], s: &str, st: &mut Stats) {
    st.eval();
    st.count("inputs_after_history");
    let r = crate::guarded(|| {
        for h in history {
            let _ = anstyle_git::parse(h);
        }
        check(s)
    });
    let mut case = Case::new("c11").b(s.as_bytes());
    for h in history {
        case = case.b(h.as_bytes());
    }
    let hist = || history.iter().map(|h| format!("{:?}", h)).collect::<Vec<_>>().join(", ");
    match r {
        Ok(Ok(kind)) => st.count(&format!("inputs_{kind}")),
        Ok(Err((sig, msg))) => st.viol(&sig, format!("after parse of {}: {}", hist(), msg), case),
        Err(p) => st.viol("c11:panic", format!("after parse of {}: parse({:?}) panicked: {p}", hist(), s), case),
    }
}

const HEX_ALPHA: [&str; 10] = ["0", "9", "a", "F", "g", "+", "-", " ", "\u{e9}", "\u{ff10}"];
const EDIT_CHARS: [&str; 12] = ["a", "Z", "0", "-", "#", "+", " ", "\u{e9}", "\u{212a}", "\u{130}", "\u{ff10}", "\u{1f600}"];

pub fn run(cfg: &Cfg) -> Stats {
    let (mult, hex6) = match cfg.tier {
        Tier::Tiny => (0u64, false),
        Tier::Quick => (1, true),
        Tier::Thorough => (20, true),
    };
    let vocab = vocabulary();
    let mut st = par(cfg, |shard, n| {
        let mut st = Stats::new();
        let mut k = 0u64;
        let mut mine = || {
            k += 1;
            k % n == shard
        };
        // near-duplicates of a description on one thread, in several orders (a result must not depend on earlier calls)
        {
            let mut bases: Vec<String> = vocab.iter().filter(|w| w.is_ascii() && !w.is_empty()).cloned().collect();
            for d in ["bold red", "red blue", "#ff0000 ul", "no-bold", "nobold dim", "brightred reverse", "7 8", "normal default"] {
                bases.push(d.to_string());
            }
            for base in &bases {
                if !mine() {
                    continue;
                }
                for d in crate::c12::near_duplicates(base) {
                    eval_after(&[], base, &mut st);
                    eval_after(&[base], &d, &mut st);
                    eval_after(&[base, &d], base, &mut st);
                    eval_after(&[&d, &d], base, &mut st);
                    eval_after(&[base, &d, base], &d, &mut st);
                }
            }
        }
        let seps = [" ", "\t", "\n", "\u{a0} "];
        let cases: [fn(&str) -> String; 3] = [|w| w.to_string(), |w| w.to_ascii_uppercase(), |w| {
            let mut s = String::new();
            for (i, c) in w.chars().enumerate() {
                s.push(if i % 2 == 1 { c.to_ascii_uppercase() } else { c });
            }
            s
        }];
        // all 1- and 2-word (and a slice of 3-word) combinations
        for a in &vocab {
            for cf in cases {
                if mine() {
                    eval(&cf(a), &mut st, true);
                }
            }
            for b in &vocab {
                for (si, sep) in seps.iter().enumerate() {
                    for (ci, cf) in cases.iter().enumerate() {
                        if !mine() {
                            continue;
                        }
                        let s = format!("{}{sep}{}", cf(a), if (si + ci) % 2 == 0 { cf(b) } else { b.to_string() });
                        eval(&s, &mut st, true);
                    }
                }
                // third word: exercises the extra-colour rule
                for c in ["red", "7", "#abc", "bold", "nope", "-1"] {
                    if mine() {
                        eval(&format!("{a} {b} {c}"), &mut st, true);
                    }
                }
            }
        }
        // '#' + 3 and 6 characters over a hex / non-hex alphabet
        let units: Vec<&[u8]> = HEX_ALPHA.iter().map(|s| s.as_bytes()).collect();
        for len in [3u32, 6u32] {
            if len == 6 && !hex6 {
                continue;
            }
            let total = (units.len() as u64).pow(len);
            let mut idx = shard;
            while idx < total {
                let mut s = String::from("#");
                let mut v = idx;
                for _ in 0..len {
                    s.push_str(HEX_ALPHA[(v % 10) as usize]);
                    v /= 10;
                }
                eval(&s, &mut st, true);
                idx += n;
            }
        }
        // single-edit mutations of every vocabulary word
        for w in &vocab {
            let chars: Vec<char> = w.chars().collect();
            for pos in 0..=chars.len() {
                for e in EDIT_CHARS {
                    if !mine() {
                        continue;
                    }
                    // insert
                    let mut s: String = chars[..pos].iter().collect();
                    s.push_str(e);
                    s.extend(chars[pos..].iter());
                    eval(&s, &mut st, true);
                    if pos < chars.len() {
                        // replace
                        let mut s: String = chars[..pos].iter().collect();
                        s.push_str(e);
                        s.extend(chars[pos + 1..].iter());
                        eval(&s, &mut st, true);
                    }
                }
                if pos < chars.len() && mine() {
                    // delete
                    let mut s: String = chars[..pos].iter().collect();
                    s.extend(chars[pos + 1..].iter());
                    eval(&s, &mut st, true);
                }
            }
        }
        // every number 0..=300 as first and as second colour, with and without leading zeros, and with an attribute around
        for v in 0..=300u32 {
            if !mine() {
                continue;
            }
            for s in [format!("{v}"), format!("red {v}"), format!("{v} {v}"), format!("bold {v} nobold"), format!("0{v} 00{v}"), format!("{v} blue {v}"), format!("#{:02x}{:02x}{:02x} {v}", v % 256, (v * 7) % 256, (v * 13) % 256)] {
                eval(&s, &mut st, true);
            }
        }
        // zero padding of every length up to 70 digits (word-length thresholds), and values that only fit 0..=255 after
        // wrapping at 2^8 / 2^16 / 2^32 / 2^64
        for pad in 1..=70usize {
            if !mine() {
                continue;
            }
            let z = "0".repeat(pad);
            for v in [0u32, 7, 42, 255, 256] {
                for s in [format!("{z}{v}"), format!("red {z}{v}"), format!("red blue {z}{v}"), format!("{z}{v} ul {z}{v}")] {
                    eval(&s, &mut st, true);
                }
            }
        }
        for base in [1u128 << 8, 1 << 16, 1 << 31, 1 << 32, 1 << 63, 1 << 64] {
            for kk in 0..=255u128 {
                if !mine() {
                    continue;
                }
                eval(&format!("{}", base + kk), &mut st, true);
                eval(&format!("red {}", base + kk), &mut st, true);
            }
        }
        // every word of the vocabulary in three spellings as the third colour / as an unknown word after two colours, and as
        // the first word: the error names the word exactly as the caller wrote it
        for w in &vocab {
            if !mine() {
                continue;
            }
            let upper = w.to_uppercase();
            let mixed: String = w.chars().enumerate().map(|(i, c)| if i % 2 == 0 { c.to_ascii_uppercase() } else { c }).collect();
            for sp in [w.clone(), upper, mixed] {
                for s in [format!("red blue {sp}"), format!("RED\tBlue  {sp} bold"), format!("{sp}x"), format!("bold {sp}~ red"), format!("#ABCDEF #abc {sp}")] {
                    eval(&s, &mut st, true);
                }
            }
        }
        // words built from two pieces of the vocabulary: a repeated or doubled negation prefix, a word written twice, two
        // words glued together - none of them is a word of the language unless the recogniser says so
        for w in &vocab {
            if !mine() {
                continue;
            }
            for pre in ["no", "no-", "nono", "no-no-", "nono-", "no-no", "NO-NO-NO-", "nonono", "non", "-", "no--", "on", "no no", "no -"] {
                let x = format!("{pre}{w}");
                for s in [x.clone(), format!("red {x} blue"), format!("{x} ul green")] {
                    eval(&s, &mut st, true);
                }
            }
            for x in [format!("{w}{w}"), format!("{w}-{w}"), format!("{w}no"), format!("{w}-"), format!("{w}bold"), format!("{w}red")] {
                eval(&x, &mut st, true);
                eval(&format!("blue {x}"), &mut st, true);
            }
        }
        // '#' followed by 0..=18 hex digits: only 3 and 6 are colours, whatever the digits are (all zero, each third
        // small enough to fit a byte, random)
        for len in 0..=18usize {
            if !mine() {
                continue;
            }
            let mut rng = Rng::new(cfg.seed, 0xC11_7000 + len as u64);
            let third = (len / 3).max(1);
            let small: String = (0..len).map(|i| if i % third >= third.saturating_sub(2) { *rng.pick(&['0', '1', 'a', 'f', 'F', '9']) } else { '0' }).collect();
            let random: String = (0..len).map(|_| *rng.pick(&['0', '1', '7', '9', 'a', 'c', 'f', 'A', 'F'])).collect();
            for digits in ["0".repeat(len), "f".repeat(len), small, random] {
                for s in [format!("#{digits}"), format!("red #{digits}"), format!("#{digits} #{digits} bold"), format!("bold #{digits} ul")] {
                    eval(&s, &mut st, true);
                }
            }
        }
        // the same description several times in a row, spelled in different letter cases (a parser that remembers its
        // last answer must still name the word as *this* caller wrote it), and keywords with one letter replaced by a
        // character that some case mapping folds onto it (dotless i, long s, the st ligatures)
        for w in &vocab {
            if !mine() {
                continue;
            }
            for s in [format!("red blue {w}"), format!("{w}x bold"), format!("bold {w} {w} {w}"), w.clone()] {
                let mixed: String = s.chars().enumerate().map(|(i, c)| if i % 2 == 1 { c.to_ascii_uppercase() } else { c }).collect();
                for variant in [s.clone(), s.to_uppercase(), s.clone(), mixed, s.to_lowercase()] {
                    eval(&variant, &mut st, true);
                }
            }
            for (from, to) in [("i", "\u{131}"), ("s", "\u{17f}"), ("st", "\u{fb06}"), ("st", "\u{fb05}"), ("I", "\u{130}"), ("S", "\u{1e9e}"), ("ss", "\u{df}")] {
                if w.contains(from) {
                    let x = w.replacen(from, to, 1);
                    for s in [x.clone(), format!("red {x}"), format!("red blue {}", x.to_uppercase())] {
                        eval(&s, &mut st, true);
                    }
                }
            }
        }
        // near-miss numbers
        for v in ["00", "007", "0255", "0256", "1000", "99999999999999999999", "+5", "+255", "-0", "-2", "--1", "1.0", "1e2", "0x10", "\u{ff11}", "١", "1 2 3", "#", "##000", "#0000000"] {
            if mine() {
                eval(v, &mut st, true);
            }
        }
        // grammar sentences + round trip
        let nsent = 50_000 * mult.max(1) / if mult == 0 { 500 } else { 1 };
        let mut i = shard;
        while i < nsent {
            let mut rng = Rng::new(cfg.seed, 0xC11_0000_0000 + i);
            let want = rand_expressible(&mut rng);
            let s = print(want, &mut rng);
            st.eval();
            st.nontrivial_hash(hash64(s.as_bytes()));
            if i < 4 {
                st.sample(8, || {
                    let mut o = J::obj();
                    o.set("origin", J::s("printed expressible style"));
                    o.set("input", J::s(show(s.as_bytes())));
                    o.set("denotes", J::s(want.describe()));
                    o
                });
            }
            match crate::guarded(|| anstyle_git::parse(&s)) {
                Ok(Ok(g)) if state_of(g) == want => st.count("round_trips"),
                Ok(other) => st.viol("c11:round-trip", format!("style [{}] printed as {:?} parses to {:?}", want.describe(), s, other.map(state_of)), Case::new("c11").b(s.as_bytes())),
                Err(p) => st.viol("c11:panic", format!("parse({:?}) panicked: {p}", s), Case::new("c11").b(s.as_bytes())),
            }
            // and a random sentence over the vocabulary (mostly invalid)
            let nw = if rng.chance(1, 10) { rng.range(6, 40) } else { rng.range(0, 6) };
            let mut t = String::new();
            for j in 0..nw {
                if j > 0 {
                    t.push_str(*rng.pick(&[" ", "\t", "  ", "\n"]));
                }
                t.push_str(rng.pick(&vocab[..]).as_str());
            }
            eval(&t, &mut st, false);
            i += n;
        }
        // arbitrary Unicode
        let mut i = shard;
        while i < nsent {
            let mut rng = Rng::new(cfg.seed, 0xC11_8000_0000 + i);
            let len = rng.range(0, 12);
            let mut s = String::new();
            for _ in 0..len {
                let c = match rng.below(8) {
                    0 => char::from_u32(rng.below(0x80) as u32).unwrap(),
                    1 => '#',
                    2 => *rng.pick(&['0', '9', 'a', 'f', 'F', ' ', '-', '+']),
                    3 => char::from_u32(rng.range(0x80, 0x7ff) as u32).unwrap(),
                    4 => char::from_u32(rng.range(0x800, 0xd7ff) as u32).unwrap(),
                    5 => char::from_u32(rng.range(0x10000, 0x10ffff) as u32).unwrap_or('x'),
                    6 => *rng.pick(&['\u{212a}', '\u{130}', '\u{ff10}', '\u{e9}', '\u{3000}', '\u{a0}']),
                    _ => *rng.pick(&['b', 'o', 'l', 'd', 'r', 'e', 'n', 'u']),
                };
                s.push(c);
            }
            eval(&s, &mut st, false);
            i += n;
        }
        st
    });
    st.exhaustive_parts.push(format!("all 1- and 2-word combinations over a {}-word vocabulary x 3 case variants x 4 separators; all '#'+3 and '#'+6 character words over a 10-character hex/non-hex alphabet; all single-character insert/replace/delete edits of every vocabulary word", vocab.len()));
    st
}

pub fn replay(case: &Case) -> Result<String, Viol> {
    let b = case.bytes.first().cloned().unwrap_or_default();
    let s = String::from_utf8_lossy(&b).into_owned();
    let history: Vec<String> = case.bytes.iter().skip(1).map(|h| String::from_utf8_lossy(h).into_owned()).collect();
    match crate::guarded(|| {
        for h in &history {
            let _ = anstyle_git::parse(h);
        }
        check(&s)
    }) {
        Ok(Ok(k)) => Ok(format!("{k}: parser and grammar agree")),
        Ok(Err((sig, msg))) => Err(Viol { case: case.clone(), msg, sig }),
        Err(p) => Err(Viol { case: case.clone(), msg: format!("parse({:?}) panicked: {p}", s), sig: "c11:panic".into() }),
    }
}
