//! C03 — incremental processing equals one-shot processing for every chunking.
use crate::{par, Case, Cfg, Stats, Tier, Viol};
use anstream::adapter::{StripBytes, StripStr, WinconBytes};
use refmodel::gen::{self, Chunker};
use refmodel::json::{show, J};
use refmodel::rng::{hash64, Rng};
use refmodel::vt::{self, Policy, N_SLOTS};
use std::io::Write as _;

pub const PROBES_BYTES: [&[u8]; 10] = [b"X", b"mX", b"\x07X", b"\x1b\\X", b"\x9cX", b"0;1mX", b" qX", b"\xa9X", b"\x18X", b"\nX"];
pub const PROBES_STR: [&str; 9] = ["X", "mX", "\x07X", "\x1b\\X", "0;1mX", " qX", "\x18X", "\nX", "\u{e9}X"];

type Runs = Vec<(char, anstyle::Style)>;

fn flatten(it: impl Iterator<Item = (anstyle::Style, String)>, out: &mut Runs) {
    for (style, text) in it {
        for c in text.chars() {
            out.push((c, style));
        }
    }
}

pub struct OneShot {
    bytes_out: Vec<u8>,
    bytes_state: StripBytes,
    str_out: Option<Vec<u8>>,
    str_state: StripStr,
    win_out: Runs,
    win_state: WinconBytes,
}

/// The one-shot iterators consumed partly by hand and finished through their bulk methods (Display / to_string /
/// into_vec / a clone): the pieces taken so far plus the rest are the one-shot result.
pub fn partly_consumed(data: &[u8], bytes_out: &[u8], str_out: Option<&[u8]>, tag: &str) -> Result<(), (String, String)> {
    for k in 0..=6usize {
        let mut it = anstream::adapter::strip_bytes(data);
        let mut got: Vec<u8> = vec![];
        let mut exhausted = false;
        for _ in 0..k {
            match it.next() {
                Some(p) => got.extend_from_slice(p),
                None => exhausted = true,
            }
        }
        let mut via_clone = got.clone();
        for p in it.clone() {
            via_clone.extend_from_slice(p);
        }
        got.extend(it.into_vec());
        if got != bytes_out || via_clone != bytes_out {
            return Err((format!("{tag}:StrippedBytes:partly-consumed"), format!("{k} pieces taken with next(), the rest with into_vec()/a clone: {:?} / {:?} != {:?}", show(&got), show(&via_clone), show(&bytes_out))));
        }
        if let (Some(want), Ok(s)) = (str_out, std::str::from_utf8(data)) {
            let mut it = anstream::adapter::strip_str(s);
            let mut got = String::new();
            for _ in 0..k {
                if let Some(p) = it.next() {
                    got.push_str(p);
                }
            }
            let a = format!("{got}{}", it.to_string());
            let b = format!("{got}{it}");
            let c = format!("{got}{}", it.clone().collect::<Vec<_>>().concat());
            if a.as_bytes() != want || b != a || c != a {
                return Err((format!("{tag}:StrippedStr:partly-consumed"), format!("{k} pieces taken with next(), the rest with to_string()/Display/a clone: {:?} / {:?} / {:?} != {:?}", show(a.as_bytes()), show(b.as_bytes()), show(c.as_bytes()), show(want))));
            }
        }
        if exhausted {
            break;
        }
    }
    Ok(())
}

pub fn one_shot(data: &[u8]) -> Result<OneShot, (String, String)> {
    let mut sb = StripBytes::new();
    let bytes_out: Vec<u8> = sb.strip_next(data).collect::<Vec<_>>().concat();
    let direct = anstream::adapter::strip_bytes(data).into_vec();
    if direct != bytes_out {
        return Err(("c03:strip_bytes-vs-StripBytes".into(), format!("strip_bytes {:?} != single-chunk StripBytes {:?}", show(&direct), show(&bytes_out))));
    }
    let mut ss = StripStr::new();
    let str_out = match std::str::from_utf8(data) {
        Ok(s) => {
            let o: Vec<u8> = ss.strip_next(s).collect::<Vec<_>>().concat().into_bytes();
            let direct = anstream::adapter::strip_str(s).to_string();
            if direct.as_bytes() != o {
                return Err(("c03:strip_str-vs-StripStr".into(), format!("strip_str {:?} != single-chunk StripStr {:?}", show(direct.as_bytes()), show(&o))));
            }
            Some(o)
        }
        Err(_) => None,
    };
    partly_consumed(data, &bytes_out, str_out.as_deref(), "c03")?;
    let mut wb = WinconBytes::new();
    let mut win_out = vec![];
    flatten(wb.extract_next(data), &mut win_out);
    Ok(OneShot { bytes_out, bytes_state: sb, str_out, str_state: ss, win_out, win_state: wb })
}

fn probe_bytes(a: &StripBytes, b: &StripBytes) -> Result<(), String> {
    for p in PROBES_BYTES.iter() {
        let mut x = a.clone();
        let mut y = b.clone();
        let ox: Vec<u8> = x.strip_next(p).collect::<Vec<_>>().concat();
        let oy: Vec<u8> = y.strip_next(p).collect::<Vec<_>>().concat();
        if ox != oy {
            return Err(format!("after the last chunk, suffix {:?} yields {:?} (chunked) vs {:?} (one-shot)", show(p), show(&ox), show(&oy)));
        }
    }
    Ok(())
}

fn probe_str(a: &StripStr, b: &StripStr) -> Result<(), String> {
    for p in PROBES_STR.iter() {
        let mut x = a.clone();
        let mut y = b.clone();
        let ox: String = x.strip_next(p).collect::<Vec<_>>().concat();
        let oy: String = y.strip_next(p).collect::<Vec<_>>().concat();
        if ox != oy {
            return Err(format!("after the last chunk, suffix {:?} yields {:?} (chunked) vs {:?} (one-shot)", show(p.as_bytes()), show(ox.as_bytes()), show(oy.as_bytes())));
        }
    }
    Ok(())
}

fn probe_win(a: &WinconBytes, b: &WinconBytes) -> Result<(), String> {
    for p in PROBES_BYTES.iter() {
        let mut x = a.clone();
        let mut y = b.clone();
        let mut ox = vec![];
        let mut oy = vec![];
        flatten(x.extract_next(p), &mut ox);
        flatten(y.extract_next(p), &mut oy);
        if ox != oy {
            return Err(format!("after the last chunk, suffix {:?} yields {:?} (chunked) vs {:?} (one-shot)", show(p), ox, oy));
        }
    }
    Ok(())
}

#[derive(Clone, Copy)]
pub struct Which {
    pub bytes: bool,
    pub stream: bool,
    pub text: bool,
    pub wincon: bool,
}
pub const ALL: Which = Which { bytes: true, stream: true, text: true, wincon: true };

/// Compare the chunked run of every incremental entry point with its one-shot result.
pub fn check_partition(data: &[u8], cuts: &[usize], one: &OneShot, which: Which, st: Option<&mut Stats>) -> Result<(), (String, String)> {
    let chunks = gen::split_at_cuts(data, cuts);
    let mut probes = 0u64;
    if which.bytes {
        let mut sb = StripBytes::new();
        let mut out = Vec::with_capacity(data.len());
        for c in &chunks {
            for p in sb.strip_next(c) {
                out.extend_from_slice(p);
            }
        }
        if out != one.bytes_out {
            return Err(("c03:StripBytes:output".into(), format!("chunked {:?} != one-shot {:?}", show(&out), show(&one.bytes_out))));
        }
        if sb != one.bytes_state {
            probes += 1;
            probe_bytes(&sb, &one.bytes_state).map_err(|e| ("c03:StripBytes:final-state".to_string(), e))?;
        }
        // the same chunks through one StrippedBytes that is refilled with extend() (drained by iteration; the last
        // chunk by iteration or by into_vec)
        let mut it = anstream::adapter::strip_bytes(chunks[0]);
        let mut out2 = Vec::with_capacity(data.len());
        for (i, c) in chunks.iter().enumerate() {
            if i > 0 {
                it.extend(c);
            }
            if i + 1 < chunks.len() || cuts.len() % 2 == 1 {
                for p in it.by_ref() {
                    out2.extend_from_slice(p);
                }
            }
        }
        out2.extend(it.into_vec());
        if out2 != one.bytes_out {
            return Err(("c03:StrippedBytes:extend".into(), format!("chunks fed with extend(): {:?} != one-shot {:?}", show(&out2), show(&one.bytes_out))));
        }
    }
    if which.stream {
        let mut s = anstream::StripStream::new(Vec::new());
        for c in &chunks {
            s.write_all(c).map_err(|e| ("c03:StripStream:error".to_string(), e.to_string()))?;
        }
        // probe the stream's state with one suffix chosen by the partition (the stream is not Clone)
        let k = (cuts.len() + data.len()) % PROBES_BYTES.len();
        s.write_all(PROBES_BYTES[k]).map_err(|e| ("c03:StripStream:error".to_string(), e.to_string()))?;
        let out = s.into_inner();
        let mut want = one.bytes_out.clone();
        let mut y = one.bytes_state.clone();
        for p in y.strip_next(PROBES_BYTES[k]) {
            want.extend_from_slice(p);
        }
        if out != want {
            return Err(("c03:StripStream:output".into(), format!("chunked (+probe {:?}) {:?} != one-shot {:?}", show(PROBES_BYTES[k]), show(&out), show(&want))));
        }
    }
    if which.text {
        if let (Some(want), Ok(s)) = (&one.str_out, std::str::from_utf8(data)) {
            let ccuts = gen::cuts_to_char_boundaries(s, cuts);
            let mut ss = StripStr::new();
            let mut out = String::with_capacity(data.len());
            let mut prev = 0;
            for &c in ccuts.iter().chain(std::iter::once(&s.len())) {
                for p in ss.strip_next(&s[prev..c]) {
                    out.push_str(p);
                }
                prev = c;
            }
            if out.as_bytes() != &want[..] {
                return Err(("c03:StripStr:output".into(), format!("chunked at {:?}: {:?} != one-shot {:?}", ccuts, show(out.as_bytes()), show(want))));
            }
            if ss != one.str_state {
                probes += 1;
                probe_str(&ss, &one.str_state).map_err(|e| ("c03:StripStr:final-state".to_string(), e))?;
            }
        }
    }
    if which.wincon {
        let mut wb = WinconBytes::new();
        let mut out = vec![];
        for c in &chunks {
            flatten(wb.extract_next(c), &mut out);
        }
        if out != one.win_out {
            let i = out.iter().zip(one.win_out.iter()).position(|(a, b)| a != b).unwrap_or(out.len().min(one.win_out.len()));
            return Err((
                "c03:WinconBytes:output".into(),
                format!("styled runs differ at character {i}: chunked {:?} vs one-shot {:?} (lengths {} / {})", out.get(i), one.win_out.get(i), out.len(), one.win_out.len()),
            ));
        }
        if wb != one.win_state {
            probes += 1;
            probe_win(&wb, &one.win_state).map_err(|e| ("c03:WinconBytes:final-state".to_string(), e))?;
        }
    }
    if let Some(st) = st {
        if probes > 0 {
            st.add("final_state_probe_rounds", probes);
        }
    }
    Ok(())
}

fn note_cut_coverage(data: &[u8], cuts: &[usize], slots: &[u8], st: &mut Stats) {
    for &c in cuts {
        st.arr("cut_position_state", slots[c] as usize, N_SLOTS);
        if c > 0 && vt::is_ws_control(data[c - 1]) && slots[c - 1] != 0 && slots[c - 1] as usize != vt::SLOT_MIDCHAR {
            st.count("cuts_directly_after_whitespace_control_inside_sequence");
        }
    }
}

fn eval_all_partitions(data: &[u8], st: &mut Stats, max_exhaustive_len: usize, rng: &mut Rng, origin: &str, enumerated: bool) {
    let one = match crate::guarded(|| one_shot(data)) {
        Ok(Ok(o)) => o,
        Ok(Err((sig, msg))) => {
            st.eval();
            st.viol(&sig, format!("[{origin}] {msg}"), Case::new("c03").b(data));
            return;
        }
        Err(p) => {
            st.eval();
            st.viol("c03:panic", format!("[{origin}] one-shot panicked: {p}"), Case::new("c03").b(data));
            return;
        }
    };
    let n = data.len();
    if n < 2 {
        return;
    }
    let slots = {
        let mut s = vt::arrival_slots(data, Policy::Reprocess);
        s.push(0);
        s
    };
    let masks: Vec<u64> = if n <= max_exhaustive_len { (1..(1u64 << (n - 1))).collect() } else { (0..64).map(|_| rng.next() & ((1u64 << (n.min(63) - 1)) - 1)).filter(|m| *m != 0).collect() };
    let interesting = data.iter().any(|b| *b < 0x20 || *b >= 0x7f);
    for m in masks {
        let cuts = gen::cuts_from_mask(n.min(63), m);
        st.eval();
        if interesting {
            if enumerated {
                st.nontrivial_enum();
            } else {
                let mut key = data.to_vec();
                key.extend_from_slice(&m.to_le_bytes());
                st.nontrivial_hash(hash64(&key));
            }
        }
        note_cut_coverage(data, &cuts, &slots, st);
        match crate::guarded(|| check_partition(data, &cuts, &one, ALL, Some(st))) {
            Ok(Ok(())) => {}
            Ok(Err((sig, msg))) => {
                let mut c = Case::new("c03").b(data);
                for x in &cuts {
                    c = c.n(*x as i64);
                }
                st.viol(&sig, format!("[{origin}] cuts {:?}: {msg}", cuts), c);
            }
            Err(p) => {
                let mut c = Case::new("c03").b(data);
                for x in &cuts {
                    c = c.n(*x as i64);
                }
                st.viol("c03:panic", format!("[{origin}] cuts {:?}: panicked: {p}", cuts), c);
            }
        }
    }
}

fn eval_long(data: &[u8], st: &mut Stats, rng: &mut Rng, sample: bool) {
    let one = match crate::guarded(|| one_shot(data)) {
        Ok(Ok(o)) => o,
        Ok(Err((sig, msg))) => {
            st.eval();
            st.viol(&sig, msg, Case::new("c03").b(data));
            return;
        }
        Err(p) => {
            st.eval();
            st.viol("c03:panic", format!("one-shot panicked: {p}"), Case::new("c03").b(data));
            return;
        }
    };
    let n = data.len();
    if n < 2 {
        return;
    }
    let mut slots = vt::arrival_slots(data, Policy::Reprocess);
    slots.push(0);
    let mut plans: Vec<(String, Vec<usize>)> = vec![
        ("single-byte".into(), gen::chunk_cuts(rng, n, Chunker::Single)),
        ("fixed-2".into(), gen::chunk_cuts(rng, n, Chunker::Fixed(2))),
        ("fixed-7".into(), gen::chunk_cuts(rng, n, Chunker::Fixed(7))),
        ("fixed-64".into(), gen::chunk_cuts(rng, n, Chunker::Fixed(64))),
        ("random-3".into(), gen::chunk_cuts(rng, n, Chunker::Random(3))),
        ("random-16".into(), gen::chunk_cuts(rng, n, Chunker::Random(16))),
        ("random-200".into(), gen::chunk_cuts(rng, n, Chunker::Random(200))),
    ];
    // targeted: one single cut for every state slot that occurs at a cut position of this input
    let mut by_slot: Vec<Vec<usize>> = vec![vec![]; N_SLOTS];
    for p in 1..n {
        by_slot[slots[p] as usize].push(p);
    }
    for (slot, ps) in by_slot.iter().enumerate() {
        if !ps.is_empty() {
            let p = *rng.pick(ps);
            plans.push((format!("targeted-{}", vt::ST_NAMES[slot]), vec![p]));
        }
    }
    for (name, cuts) in plans {
        if cuts.is_empty() {
            continue;
        }
        st.eval();
        let mut key = data.to_vec();
        for c in &cuts {
            key.extend_from_slice(&(*c as u32).to_le_bytes());
        }
        st.nontrivial_hash(hash64(&key));
        note_cut_coverage(data, &cuts, &slots, st);
        if sample && name.starts_with("targeted") {
            st.sample(10, || {
                let mut o = J::obj();
                o.set("origin", J::s("long stream, targeted cut"));
                o.set("plan", J::s(&name));
                o.set("len", J::UInt(n as u64));
                let c = cuts[0];
                o.set("around_cut", J::s(format!("{} | {}", show(&data[c.saturating_sub(12)..c]), show(&data[c..(c + 12).min(n)]))));
                o
            });
        }
        match crate::guarded(|| check_partition(data, &cuts, &one, ALL, Some(st))) {
            Ok(Ok(())) => {}
            Ok(Err((sig, msg))) => {
                let mut c = Case::new("c03").b(data);
                for x in &cuts {
                    c = c.n(*x as i64);
                }
                st.viol(&sig, format!("[{name}] {msg}"), c);
            }
            Err(p) => {
                let mut c = Case::new("c03").b(data);
                for x in &cuts {
                    c = c.n(*x as i64);
                }
                st.viol("c03:panic", format!("[{name}] panicked: {p}"), c);
            }
        }
    }
}

pub fn run(cfg: &Cfg) -> Stats {
    let (lc, lb, nlong, maxlen, maxex, long_thr) = match cfg.tier {
        Tier::Tiny => (2u32, 2u32, 10u64, 200usize, 6usize, 256usize),
        Tier::Quick => (3, 3, 5_000, 2048, 10, 8192),
        Tier::Thorough => (4, 5, 300_000, 8192, 12, 65536),
    };
    let mut st = par(cfg, |shard, n| {
        let mut st = Stats::new();
        let mut rng = Rng::new(cfg.seed, 0xC03_0000_0000 + shard);
        let cu = gen::char_units(&gen::CHARS27);
        gen::for_each_string(&cu, lc, shard, n, |s, _| eval_all_partitions(s, &mut st, maxex, &mut rng, "chars27", true));
        let bu20 = gen::byte_units(&gen::BYTES20);
        gen::for_each_string(&bu20, lb, shard, n, |s, _| {
            let dup = crate::c01::in_chars27_enum(s, lc);
            if !dup {
                eval_all_partitions(s, &mut st, maxex, &mut rng, "bytes20", true)
            }
        });
        let mut i = shard;
        while i < nlong {
            let mut r = Rng::new(cfg.seed, 0xC03_4000_0000 + i);
            let s = match i % 10 {
                9 => {
                    st.count("long_threshold_streams");
                    gen::gen_long_stream(&mut r, long_thr, i % 20 == 9)
                }
                0 | 3 | 6 => gen::gen_stream(&mut r, maxlen, true),
                1 | 4 | 7 => gen::gen_stream(&mut r, maxlen, false),
                _ => gen::gen_sgr_text(&mut r, gen::SgrOpts::default(), 40, &[]),
            };
            eval_long(&s, &mut st, &mut r, i < 3);
            i += n;
        }
        st
    });
    st.exhaustive_parts.push(format!("all 2^(n-1) partitions of all strings of <= {lc} characters over CHARS27 (strings up to {maxex} bytes; longer ones 64 random partitions)"));
    st.exhaustive_parts.push(format!("all partitions of all strings of <= {lb} bytes over BYTES20 (malformed UTF-8, C1)"));
    st
}

pub fn replay(case: &Case) -> Result<String, Viol> {
    let data = case.bytes.first().cloned().unwrap_or_default();
    let cuts: Vec<usize> = case.nums.iter().map(|n| *n as usize).collect();
    let r = crate::guarded(|| {
        let one = one_shot(&data)?;
        check_partition(&data, &cuts, &one, ALL, None)
    });
    match r {
        Ok(Ok(())) => Ok(format!("chunked == one-shot for cuts {:?}", cuts)),
        Ok(Err((sig, msg))) => Err(Viol { case: case.clone(), msg, sig }),
        Err(p) => Err(Viol { case: case.clone(), msg: format!("panicked: {p}"), sig: "c03:panic".into() }),
    }
}
