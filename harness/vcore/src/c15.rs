//! C15 — roff rendering preserves text, colours and font per segment.
use crate::{par, Case, Cfg, Stats, Tier, Viol};
use refmodel::json::{show, J};
use refmodel::rng::{hash64, Rng};
use refmodel::sgr::{self, fx, Col, SgrState, UlMode};

#[derive(Debug, Clone, Copy, PartialEq, Eq)]
pub enum Font {
    Roman,
    Bold,
    Italic,
}

const HUES: [&str; 8] = ["black", "red", "green", "yellow", "blue", "magenta", "cyan", "white"];

type Cell = (char, String, String, Font);

#[derive(Debug)]
pub struct Segment {
    pub fg: String,
    pub bg: String,
    pub font: Font,
    pub text: String,
}

/// Independent roff reader: request lines (leading '.' or '\''), text lines, un-escaping.
/// `rendered`: the `render()` form with the two preamble lines and `\*(Aq` apostrophes.
pub fn read_roff(doc: &str, rendered: bool) -> Result<Vec<Segment>, String> {
    let mut lines: Vec<&str> = doc.split('\n').collect();
    // the document ends with a newline: the last element of the split is empty
    match lines.pop() {
        Some("") => {}
        other => return Err(format!("document does not end with a newline (last line {other:?})")),
    }
    let mut i = 0;
    if rendered {
        if lines.len() < 2 || !lines[0].starts_with(".ie \\n(.g .ds Aq") || !lines[1].starts_with(".el .ds Aq") {
            return Err("render() output does not start with the apostrophe preamble".into());
        }
        i = 2;
    }
    let is_request = |l: &str| l.starts_with('.') || l.starts_with('\'');
    let mut segs = vec![];
    let mut defined: std::collections::HashMap<String, String> = Default::default();
    while i < lines.len() {
        let mut colours: Vec<String> = vec![];
        for want in [".gcolor ", ".fcolor "] {
            // an RGB colour is defined right before it is used
            if i < lines.len() && lines[i].starts_with(".defcolor ") {
                let f: Vec<&str> = lines[i].split(' ').collect();
                if f.len() != 4 || f[2] != "rgb" || !f[3].starts_with('#') || f[3].len() != 7 {
                    return Err(format!("malformed colour definition {:?}", lines[i]));
                }
                defined.insert(f[1].to_string(), f[3].to_string());
                i += 1;
            }
            if i >= lines.len() || !lines[i].starts_with(want) {
                return Err(format!("line {i}: expected a {:?} request, found {:?}", want.trim(), lines.get(i)));
            }
            let name = lines[i][want.len()..].to_string();
            if name.contains(' ') || name.is_empty() {
                return Err(format!("line {i}: colour request with unexpected arguments {:?}", lines[i]));
            }
            let name = match defined.get(&name) {
                Some(hex) => hex.clone(),
                None => name,
            };
            colours.push(name);
            i += 1;
        }
        let start = i;
        while i < lines.len() && !is_request(lines[i]) {
            i += 1;
        }
        if start == i {
            return Err(format!("line {i}: colour requests are not followed by text (found {:?})", lines.get(i)));
        }
        let raw = lines[start..i].join("\n");
        let (font, text) = unescape(&raw, rendered)?;
        segs.push(Segment { fg: colours[0].clone(), bg: colours[1].clone(), font, text });
    }
    Ok(segs)
}

fn unescape(raw: &str, rendered: bool) -> Result<(Font, String), String> {
    // font escapes may stand anywhere (one pair around the whole text, or one pair per line): every visible character
    // of the segment must come out in one and the same font, and the font is back to roman at the end
    let mut out = String::new();
    let cs: Vec<char> = raw.chars().collect();
    let mut i = 0;
    let mut current = Font::Roman;
    let mut first_switch: Option<Font> = None;
    let mut seg_font: Option<Font> = None;
    let mut line_started = false;
    while i < cs.len() {
        let c = cs[i];
        if c != '\\' {
            if rendered && c == '\'' {
                return Err(format!("bare apostrophe in render() output: {raw:?}"));
            }
            if c == '\n' {
                line_started = false;
            } else {
                line_started = true;
                match seg_font {
                    None => seg_font = Some(current),
                    Some(f) if f != current => return Err(format!("the text of one segment is set in more than one font: {raw:?}")),
                    _ => {}
                }
            }
            out.push(c);
            i += 1;
            continue;
        }
        match cs.get(i + 1) {
            Some('\\') => {
                out.push('\\');
                line_started = true;
                if seg_font.is_none() {
                    seg_font = Some(current);
                } else if seg_font != Some(current) {
                    return Err(format!("the text of one segment is set in more than one font: {raw:?}"));
                }
                i += 2;
            }
            Some('-') => {
                out.push('-');
                line_started = true;
                if seg_font.is_none() {
                    seg_font = Some(current);
                } else if seg_font != Some(current) {
                    return Err(format!("the text of one segment is set in more than one font: {raw:?}"));
                }
                i += 2;
            }
            Some('f') if matches!(cs.get(i + 2), Some('B') | Some('I') | Some('R') | Some('P')) => {
                current = match cs[i + 2] {
                    'B' => Font::Bold,
                    'I' => Font::Italic,
                    _ => Font::Roman,
                };
                if first_switch.is_none() {
                    first_switch = Some(current);
                }
                i += 3;
            }
            Some('&') => {
                // zero-width: only legitimate in front of a control character at the start of a line
                let protects = matches!(cs.get(i + 2), Some('.') | Some('\'')) || (rendered && cs[i + 2..].starts_with(&['\\', '*', '(', 'A', 'q']));
                if line_started || !protects {
                    return Err(format!("unexpected \\& at offset {i} of {raw:?}"));
                }
                i += 2;
            }
            Some('*') if rendered && cs[i + 1..].starts_with(&['*', '(', 'A', 'q']) => {
                out.push('\'');
                line_started = true;
                if seg_font.is_none() {
                    seg_font = Some(current);
                } else if seg_font != Some(current) {
                    return Err(format!("the text of one segment is set in more than one font: {raw:?}"));
                }
                i += 5;
            }
            other => return Err(format!("text contains the unescaped roff escape \\{other:?} at offset {i}: {raw:?}")),
        }
    }
    if current != Font::Roman {
        return Err(format!("the font is not switched back to roman at the end of the segment: {raw:?}"));
    }
    // a text line must not begin with a control character
    for l in raw.split('\n') {
        if l.starts_with('.') || l.starts_with('\'') {
            return Err(format!("text line {l:?} would be read as a request"));
        }
    }
    Ok((seg_font.or(first_switch).unwrap_or(Font::Roman), out))
}

fn colour_name(c: Option<Col>) -> String {
    match c {
        None => "default".into(),
        Some(Col::P16(n)) => HUES[(n % 8) as usize].into(),
        Some(Col::Idx(n)) if n < 16 => HUES[(n % 8) as usize].into(),
        Some(Col::Rgb(r, g, b)) => format!("#{r:02x}{g:02x}{b:02x}"),
        Some(Col::Idx(n)) => {
            let (r, g, b) = crate::c10::xterm_rgb(n);
            format!("#{r:02x}{g:02x}{b:02x}")
        }
    }
}

fn font_of(s: &SgrState) -> Font {
    let bright_fg = matches!(s.fg, Some(Col::P16(n)) if n >= 8);
    if s.fx & fx::BOLD != 0 || bright_fg {
        Font::Bold
    } else if s.fx & fx::ITALIC != 0 {
        Font::Italic
    } else {
        Font::Roman
    }
}

pub fn check(input: &str) -> Result<usize, (String, String)> {
    let (want_chars, _) = sgr::interpret(input.as_bytes(), UlMode::Select);
    let want: Vec<Cell> = want_chars.iter().map(|(c, s)| (*c, colour_name(s.fg), colour_name(s.bg), font_of(s))).collect();
    let roff = anstyle_roff::to_roff(input);
    for (which, doc) in [(false, roff.to_roff()), (true, roff.render())] {
        let name = if which { "render" } else { "to_roff" };
        let segs = read_roff(&doc, which).map_err(|e| (format!("c15:{name}:structure"), format!("{e}\n--- document:\n{}", show(doc.as_bytes()))))?;
        let mut got: Vec<Cell> = vec![];
        for s in &segs {
            if s.text.is_empty() {
                return Err((format!("c15:{name}:empty-segment"), format!("a segment without text was emitted:\n{}", show(doc.as_bytes()))));
            }
            for c in s.text.chars() {
                got.push((c, s.fg.clone(), s.bg.clone(), s.font));
            }
        }
        let gt: String = got.iter().map(|c| c.0).collect();
        let wt: String = want.iter().map(|c| c.0).collect();
        if gt != wt {
            return Err((format!("c15:{name}:text"), format!("text recovered from the document is {:?}, the visible text is {:?}", show(gt.as_bytes()), show(wt.as_bytes()))));
        }
        for (i, (g, w)) in got.iter().zip(&want).enumerate() {
            if g.1 != w.1 {
                return Err((format!("c15:{name}:foreground"), format!("character {i} {:?}: foreground request names {:?}, the segment's colour is {:?}", g.0, g.1, w.1)));
            }
            if g.2 != w.2 {
                return Err((format!("c15:{name}:background"), format!("character {i} {:?}: background request names {:?}, the segment's colour is {:?}", g.0, g.2, w.2)));
            }
            if g.3 != w.3 {
                return Err((format!("c15:{name}:font"), format!("character {i} {:?}: set in {:?}, expected {:?}", g.0, g.3, w.3)));
            }
        }
    }
    Ok(want.len())
}

const TEXT_UNITS: [&str; 30] = [
    "a", "B", "x", " ", " ", ".", ".", "'", "'", "\\", "\\", "-", "-", "\n", "\n.", "\n'", "\n", "\t", "&", "f", "R", "\"", "\u{e9}", "\u{6f22}", "\u{1f600}", "0", "\\fB", "\\&", "..",
    "m",
];

fn gen_text(rng: &mut Rng, max: u64) -> String {
    let n = rng.range(1, max);
    let mut s = String::new();
    for _ in 0..n {
        s.push_str(*rng.pick(&TEXT_UNITS[..]));
    }
    s
}

/// a self-contained SGR sequence: reset followed by a subset of effects and 16-colour codes, in random order
fn gen_sgr(rng: &mut Rng, out: &mut String) {
    let mut codes: Vec<u32> = vec![];
    match rng.below(3) {
        0 => codes.push(1),
        1 => codes.push(2),
        _ => {}
    }
    for c in [3u32, 4, 5, 7, 8, 9] {
        if rng.chance(1, 4) {
            codes.push(c);
        }
    }
    match rng.below(4) {
        0 => {}
        1 | 2 => codes.push(30 + rng.below(8) as u32),
        _ => codes.push(90 + rng.below(8) as u32),
    }
    match rng.below(4) {
        0 | 1 => {}
        2 => codes.push(40 + rng.below(8) as u32),
        _ => codes.push(100 + rng.below(8) as u32),
    }
    // random order of the attributes after the reset
    for i in (1..codes.len()).rev() {
        let j = rng.below(i as u64 + 1) as usize;
        codes.swap(i, j);
    }
    // now and then an effect is switched off again inside the same sequence (SGR 22-29), before or after the codes that
    // switch things on (the colour resets 39 / 49 are not used: the segmenter does not implement them, which is outside
    // the statement's domain of "reset + effects + 16-colour codes")
    if rng.chance(1, 5) {
        for _ in 0..rng.range(1, 2) {
            let off = *rng.pick(&[22u32, 23, 24, 25, 27, 28, 29]);
            let at = rng.below(codes.len() as u64 + 1) as usize;
            codes.insert(at, off);
        }
    }
    out.push_str("\x1b[0");
    for c in codes {
        out.push_str(&format!(";{c}"));
    }
    out.push('m');
}

fn eval(input: &str, st: &mut Stats, enumerated: bool) {
    st.eval();
    if enumerated {
        st.nontrivial_enum();
    } else {
        st.nontrivial_hash(hash64(input.as_bytes()));
    }
    match crate::guarded(|| check(input)) {
        Ok(Ok(n)) => st.add("characters_compared", n as u64),
        Ok(Err((sig, msg))) => st.viol(&sig, format!("{:?}: {msg}", show(input.as_bytes())), Case::new("c15").b(input.as_bytes())),
        Err(p) => st.viol("c15:panic", format!("{:?}: panicked: {p}", show(input.as_bytes())), Case::new("c15").b(input.as_bytes())),
    }
}

pub fn run(cfg: &Cfg) -> Stats {
    let ntext = match cfg.tier {
        Tier::Tiny => 50u64,
        Tier::Quick => 20_000,
        Tier::Thorough => 1_000_000,
    };
    let mut st = par(cfg, |shard, n| {
        let mut st = Stats::new();
        let mut k = 0u64;
        // 17 x 17 colour pairs x 192 effect subsets, one segment each
        for fg in 0..17u32 {
            for bg in 0..17u32 {
                k += 1;
                if k % n != shard {
                    continue;
                }
                for intensity in 0..3u32 {
                    for sub in 0..64u32 {
                        let mut s = String::from("\x1b[0");
                        match intensity {
                            1 => s.push_str(";1"),
                            2 => s.push_str(";2"),
                            _ => {}
                        }
                        for (b, c) in [3u32, 4, 5, 7, 8, 9].iter().enumerate() {
                            if sub & (1 << b) != 0 {
                                s.push_str(&format!(";{c}"));
                            }
                        }
                        if fg > 0 {
                            let c = fg - 1;
                            s.push_str(&format!(";{}", if c < 8 { 30 + c } else { 90 + c - 8 }));
                        }
                        if bg > 0 {
                            let c = bg - 1;
                            s.push_str(&format!(";{}", if c < 8 { 40 + c } else { 100 + c - 8 }));
                        }
                        s.push_str("m.it's a-b\\c\n'next");
                        eval(&s, &mut st, true);
                    }
                }
            }
        }
        // every character U+00A0..U+3000 and a lattice over the rest of Unicode, inline and at the start of a line
        let mut cp = 0xA0u32;
        while cp <= 0x10FFFF {
            let step = if cp < 0x3000 { 1 } else { 0x101 };
            k += 1;
            if k % n == shard {
                if let Some(c) = char::from_u32(cp) {
                    eval(&format!("\x1b[0;1;31m10{c}km\n{c}x\x1b[0m {c}"), &mut st, true);
                }
            }
            cp += step;
        }
        // unbroken runs around 2^k bytes with no blank and no line break
        for t in refmodel::gen::THRESHOLDS.iter().filter(|t| **t <= 16384) {
            for d in -1i64..=1 {
                k += 1;
                if k % n != shard {
                    continue;
                }
                let len = (*t as i64 + d) as usize;
                eval(&format!("\x1b[0;3m{}\x1b[0m.", "w".repeat(len)), &mut st, true);
                eval(&format!("\x1b[0;32m{}", "\u{2500}".repeat(len / 3 + 1)), &mut st, true);
                eval(&format!("{} tail", "w".repeat(len)), &mut st, true);
            }
        }
        let mut i = shard;
        while i < ntext {
            let mut rng = Rng::new(cfg.seed, 0xC15_0000_0000 + i);
            let mut s = String::new();
            if rng.chance(1, 3) {
                s.push_str(&gen_text(&mut rng, 10));
            }
            // styles come from a small pool in half of the documents, so that A, B, A patterns and repeats are common
            let pool: Vec<String> = (0..rng.range(1, 3))
                .map(|_| {
                    let mut t = String::new();
                    gen_sgr(&mut rng, &mut t);
                    t
                })
                .collect();
            let use_pool = rng.chance(1, 2);
            let nseg = if rng.chance(1, 12) { rng.range(6, 60) } else { rng.range(0, 6) };
            for _ in 0..nseg {
                if use_pool {
                    s.push_str(rng.pick(&pool[..]).as_str());
                } else {
                    gen_sgr(&mut rng, &mut s);
                }
                match rng.below(20) {
                    0 => {}
                    1 => s.push_str(*rng.pick(&["\n", "\n\n", " ", "   ", "\t", " \n "])),
                    2 => {
                        // a long segment: length on a power-of-two threshold
                        // (line breaks every 61 characters, rarely, or never; letters or a multi-byte character; with or without blanks)
                        let n = refmodel::gen::long_len(&mut rng, 8192);
                        let period = *rng.pick(&[61usize, 61, 3001, usize::MAX]);
                        let blank = *rng.pick(&[usize::MAX, usize::MAX, 7, 997]);
                        let wide = rng.chance(1, 4);
                        for k in 0..n {
                            s.push(if k % period == period - 1 {
                                '\n'
                            } else if k % blank == blank - 1 {
                                ' '
                            } else if wide {
                                '\u{2500}'
                            } else {
                                (b'a' + (k % 26) as u8) as char
                            });
                        }
                    }
                    _ => s.push_str(&gen_text(&mut rng, 12)),
                }
            }
            if i < 3 {
                st.sample(5, || {
                    let mut o = J::obj();
                    o.set("input", J::s(show(s.as_bytes())));
                    o.set("document", J::s(show(anstyle_roff::to_roff(&s).to_roff().as_bytes())));
                    o
                });
            }
            eval(&s, &mut st, false);
            i += n;
        }
        st
    });
    st.exhaustive_parts.push("all 17x17 colour pairs x 192 effect subsets (none/bold/faint x any subset of italic, underline, blink, reverse, hidden, strike) for a single segment; every character U+00A0..U+3000 inline and at the start of a line; unbroken runs of 2^k-1..2^k+1 characters up to 16384".into());
    st
}

pub fn replay(case: &Case) -> Result<String, Viol> {
    let b = case.bytes.first().cloned().unwrap_or_default();
    let s = String::from_utf8_lossy(&b).into_owned();
    match crate::guarded(|| check(&s)) {
        Ok(Ok(n)) => Ok(format!("{n} characters: text, colours and font preserved")),
        Ok(Err((sig, msg))) => Err(Viol { case: case.clone(), msg, sig }),
        Err(p) => Err(Viol { case: case.clone(), msg: format!("panicked: {p}"), sig: "c15:panic".into() }),
    }
}
