//! C05 — rendered styles are pure SGR and round-trip through SGR interpretation.
use crate::adapt::{color_of, effects_of, state_of, style_of};
use crate::{par, Case, Cfg, Stats, Tier, Viol};
use refmodel::json::{show, J};
use refmodel::rng::{hash64, Rng};
use refmodel::sgr::{Col, RefSgr, SgrState, UlMode};
use refmodel::vt::{self, Ev, Policy};
use std::fmt::Display;

/// Interpret rendered bytes: must be SGR sequences only.  Returns the resulting state from `from`.
fn interpret_pure(bytes: &[u8], from: SgrState) -> Result<SgrState, String> {
    let mut r = vt::RefVt::new(Policy::Consume);
    r.feed(bytes);
    if r.slot() != 0 {
        return Err(format!("rendered bytes {:?} end inside a sequence", show(bytes)));
    }
    let mut sgr = RefSgr::new(UlMode::Flags);
    sgr.s = from;
    for e in &r.ev {
        match e {
            Ev::Csi { fin: b'm', inter, ignore: false, .. } if inter.is_empty() => {
                sgr.on_event(e);
            }
            other => return Err(format!("rendered bytes {:?} contain {:?}, which is not an SGR sequence", show(bytes), other)),
        }
    }
    if !vt::visible(bytes, Policy::Consume).is_empty() {
        return Err(format!("stripping the rendered bytes {:?} leaves text", show(bytes)));
    }
    Ok(sgr.s)
}

/// what interpreting the rendering of `s` must give: an underline colour from the 16-colour palette comes back as
/// the same index of the 256-colour palette
fn expected_state(s: SgrState) -> SgrState {
    let mut e = s;
    if let Some(Col::P16(n)) = e.ul {
        e.ul = Some(Col::Idx(n));
    }
    e
}

macro_rules! grid {
    ($x:expr, $out:ident, $alt:literal) => {{
        let x = $x;
        for w in [0usize, 1, 5, 40] {
            for p in [0usize, 2, 40] {
                if $alt {
                    $out.push((format!("{{:#{w}}}"), format!("{:#w$}", x, w = w)));
                    $out.push((format!("{{:<#{w}}}"), format!("{:<#w$}", x, w = w)));
                    $out.push((format!("{{:*^#{w}}}"), format!("{:*^#w$}", x, w = w)));
                    $out.push((format!("{{:0>#{w}.{p}}}"), format!("{:0>#w$.p$}", x, w = w, p = p)));
                    $out.push((format!("{{:#.{p}}}"), format!("{:#.p$}", x, p = p)));
                    $out.push((format!("{{:+#0{w}}}"), format!("{:+#0w$}", x, w = w)));
                } else {
                    $out.push((format!("{{:{w}}}"), format!("{:w$}", x, w = w)));
                    $out.push((format!("{{:<{w}}}"), format!("{:<w$}", x, w = w)));
                    $out.push((format!("{{:^{w}}}"), format!("{:^w$}", x, w = w)));
                    $out.push((format!("{{:>{w}}}"), format!("{:>w$}", x, w = w)));
                    $out.push((format!("{{:*<{w}}}"), format!("{:*<w$}", x, w = w)));
                    $out.push((format!("{{:*^{w}.{p}}}"), format!("{:*^w$.p$}", x, w = w, p = p)));
                    $out.push((format!("{{:0>{w}.{p}}}"), format!("{:0>w$.p$}", x, w = w, p = p)));
                    $out.push((format!("{{:.{p}}}"), format!("{:.p$}", x, p = p)));
                    $out.push((format!("{{:+0{w}}}"), format!("{:+0w$}", x, w = w)));
                }
            }
        }
    }};
}

fn all_equal(what: &str, base: &str, variants: &[(String, String)]) -> Result<(), (String, String)> {
    for (spec, got) in variants {
        if got != base {
            return Err((format!("c05:{what}:format-flags"), format!("format spec {spec} produced {:?}, the plain rendering is {:?}", show(got.as_bytes()), show(base.as_bytes()))));
        }
    }
    Ok(())
}

/// io::Write sinks that do not take everything at once
struct Trickle {
    kind: u8,
    calls: usize,
    got: Vec<u8>,
}

impl std::io::Write for Trickle {
    fn write(&mut self, buf: &[u8]) -> std::io::Result<usize> {
        self.calls += 1;
        let n = match self.kind {
            0 => 1,
            1 => 3,
            2 => {
                if self.calls % 2 == 1 {
                    return Err(std::io::ErrorKind::Interrupted.into());
                }
                2
            }
            4 => {
                if self.calls == 1 {
                    3
                } else {
                    buf.len().saturating_sub(1).max(1)
                }
            }
            _ => buf.len(),
        }
        .min(buf.len());
        self.got.extend_from_slice(&buf[..n]);
        Ok(n)
    }
    fn write_vectored(&mut self, bufs: &[std::io::IoSlice<'_>]) -> std::io::Result<usize> {
        if self.kind == 4 {
            // gathers, but the first call stops inside the first piece; later calls take one byte less than offered
            self.calls += 1;
            let total: usize = bufs.iter().map(|b| b.len()).sum();
            let mut left = if self.calls == 1 { total.min(3) } else { total.saturating_sub(1).max(total.min(1)) };
            let taken = left;
            for b in bufs {
                let k = left.min(b.len());
                self.got.extend_from_slice(&b[..k]);
                left -= k;
            }
            return Ok(taken);
        }
        if self.kind != 3 {
            let first = bufs.iter().find(|b| !b.is_empty()).map(|b| &**b).unwrap_or(&[]);
            return self.write(first);
        }
        // gathers, but stops two bytes short of the end when there is more than one slice
        self.calls += 1;
        let total: usize = bufs.iter().map(|b| b.len()).sum();
        let mut left = if bufs.len() > 1 { total.saturating_sub(2) } else { total };
        let taken = left;
        for b in bufs {
            let k = left.min(b.len());
            self.got.extend_from_slice(&b[..k]);
            left -= k;
        }
        Ok(taken)
    }
    fn flush(&mut self) -> std::io::Result<()> {
        Ok(())
    }
}

struct BoundedFmt {
    cap: usize,
    got: String,
}

impl std::fmt::Write for BoundedFmt {
    fn write_str(&mut self, s: &str) -> std::fmt::Result {
        if self.got.len() + s.len() > self.cap {
            return Err(std::fmt::Error);
        }
        self.got.push_str(s);
        Ok(())
    }
}

struct BoundedIo {
    cap: usize,
    got: Vec<u8>,
}

impl std::io::Write for BoundedIo {
    fn write(&mut self, buf: &[u8]) -> std::io::Result<usize> {
        if self.got.len() + buf.len() > self.cap {
            return Err(std::io::Error::new(std::io::ErrorKind::Other, "record does not fit"));
        }
        self.got.extend_from_slice(buf);
        Ok(buf.len())
    }
    fn flush(&mut self) -> std::io::Result<()> {
        Ok(())
    }
}

pub fn check_style(st: SgrState, with_grid: bool) -> Result<(), (String, String)> {
    let style = style_of(st);
    if state_of(style) != st {
        return Err(("c05:harness".into(), "style construction does not round-trip through the getters".into()));
    }
    let want = expected_state(st);
    let plain = st == SgrState::default();

    // Display path
    let disp = format!("{style}");
    let got = interpret_pure(disp.as_bytes(), SgrState::default()).map_err(|e| ("c05:style:not-pure-sgr".to_string(), e))?;
    if got != want {
        return Err(("c05:style:round-trip".into(), format!("style [{}] renders {:?}, which a terminal reads as [{}]", st.describe(), show(disp.as_bytes()), got.describe())));
    }
    // render() and write_to() agree byte for byte
    let rend = format!("{}", style.render());
    if rend != disp {
        return Err(("c05:style:render-vs-display".into(), format!("render() {:?} != Display {:?}", show(rend.as_bytes()), show(disp.as_bytes()))));
    }
    let mut w: Vec<u8> = vec![];
    style.write_to(&mut w).map_err(|e| ("c05:style:write_to-error".to_string(), e.to_string()))?;
    if w != disp.as_bytes() {
        return Err(("c05:style:write_to-vs-display".into(), format!("write_to {:?} != Display {:?}", show(&w), show(disp.as_bytes()))));
    }
    // the io::Write path into writers that take one or three bytes per call, fail with Interrupted every other call, or
    // implement a gathering write_vectored: same bytes
    for kind in 0..5u8 {
        let mut t = Trickle { kind, calls: 0, got: vec![] };
        style.write_to(&mut t).map_err(|e| ("c05:style:write_to-error".to_string(), format!("writer kind {kind}: {e}")))?;
        if t.got != disp.as_bytes() {
            return Err(("c05:style:write_to-short-writes".into(), format!("write_to into a writer of kind {kind} (1 byte / 3 bytes per call, interrupted, vectored) delivered {:?}, Display gives {:?}", show(&t.got), show(disp.as_bytes()))));
        }
    }
    // sinks of fixed capacity that refuse a piece that does not fit and stay usable (ArrayString-like): a call that
    // reports success delivered the whole rendering
    let full = disp.len();
    for cap in [full.wrapping_sub(1), full.wrapping_sub(2), 4, 5, 6, 8, 9, 10, 14, full] {
        if cap > full {
            continue;
        }
        use std::fmt::Write as _;
        let mut b = BoundedFmt { cap, got: String::new() };
        let r = write!(b, "{style}");
        let mut b2 = BoundedFmt { cap, got: String::new() };
        let r2 = write!(b2, "{}", style.render());
        let mut io = BoundedIo { cap, got: vec![] };
        let r3 = style.write_to(&mut io);
        for (what, ok, got) in [("Display", r.is_ok(), b.got.as_bytes()), ("render()", r2.is_ok(), b2.got.as_bytes()), ("write_to", r3.is_ok(), &io.got[..])] {
            if ok && got != disp.as_bytes() {
                return Err(("c05:style:success-with-partial-rendering".into(), format!("{what} into a sink with room for {cap} bytes reported success with {:?}; the rendering is {:?}", show(got), show(disp.as_bytes()))));
            }
            if !ok && cap >= full {
                return Err(("c05:style:error-without-cause".into(), format!("{what} into a sink with room for {cap} bytes (rendering: {full} bytes) reported an error")));
            }
        }
    }
    // the alternate flag belongs to Style itself: on the value returned by render() it changes nothing
    let rend_alt = format!("{:#}", style.render());
    if rend_alt != disp {
        return Err(("c05:style:format-flags".into(), format!("format spec {{:#}} on render() produced {:?}, the plain rendering is {:?}", show(rend_alt.as_bytes()), show(disp.as_bytes()))));
    }
    // reset form
    let reset = format!("{style:#}");
    let reset2 = format!("{}", style.render_reset());
    let mut w: Vec<u8> = vec![];
    style.write_reset_to(&mut w).map_err(|e| ("c05:reset:write_reset_to-error".to_string(), e.to_string()))?;
    if reset != reset2 || w != reset.as_bytes() {
        return Err(("c05:reset:paths-differ".into(), format!("{{:#}} {:?}, render_reset {:?}, write_reset_to {:?}", show(reset.as_bytes()), show(reset2.as_bytes()), show(&w))));
    }
    for kind in 0..5u8 {
        let mut t = Trickle { kind, calls: 0, got: vec![] };
        style.write_reset_to(&mut t).map_err(|e| ("c05:reset:write_reset_to-error".to_string(), format!("writer kind {kind}: {e}")))?;
        if t.got != reset.as_bytes() {
            return Err(("c05:reset:write_reset_to-short-writes".into(), format!("write_reset_to into a writer of kind {kind} delivered {:?}, expected {:?}", show(&t.got), show(reset.as_bytes()))));
        }
    }
    if plain != reset.is_empty() {
        return Err(("c05:reset:elision".into(), format!("style [{}] (plain={plain}) has reset form {:?}", st.describe(), show(reset.as_bytes()))));
    }
    if style.is_plain() != plain {
        return Err(("c05:is_plain".into(), format!("is_plain() = {} for [{}]", style.is_plain(), st.describe())));
    }
    let after = interpret_pure(reset.as_bytes(), want).map_err(|e| ("c05:reset:not-pure-sgr".to_string(), e))?;
    if after != SgrState::default() {
        return Err(("c05:reset:not-default".into(), format!("after style + reset the terminal is in [{}]", after.describe())));
    }
    if with_grid {
        let mut v: Vec<(String, String)> = vec![];
        grid!(style, v, false);
        grid!(style.render(), v, false);
        grid!(style.render(), v, true);
        all_equal("style", &disp, &v)?;
        let mut v: Vec<(String, String)> = vec![];
        grid!(style, v, true);
        grid!(style.render_reset(), v, false);
        grid!(style.render_reset(), v, true);
        all_equal("reset", &reset, &v)?;
    }
    Ok(())
}

fn check_color(c: Col, with_grid: bool) -> Result<(), (String, String)> {
    let color = color_of(c);
    let fg = format!("{}", color.render_fg());
    let bg = format!("{}", color.render_bg());
    let got = interpret_pure(fg.as_bytes(), SgrState::default()).map_err(|e| ("c05:color:not-pure-sgr".to_string(), e))?;
    if got != (SgrState { fg: Some(c), ..Default::default() }) {
        return Err(("c05:color:render_fg".into(), format!("{c:?}.render_fg() = {:?} reads as [{}]", show(fg.as_bytes()), got.describe())));
    }
    let got = interpret_pure(bg.as_bytes(), SgrState::default()).map_err(|e| ("c05:color:not-pure-sgr".to_string(), e))?;
    if got != (SgrState { bg: Some(c), ..Default::default() }) {
        return Err(("c05:color:render_bg".into(), format!("{c:?}.render_bg() = {:?} reads as [{}]", show(bg.as_bytes()), got.describe())));
    }
    // the typed colours render like the enum
    let (tfg, tbg) = match color {
        anstyle::Color::Ansi(a) => (format!("{}", a.render_fg()), format!("{}", a.render_bg())),
        anstyle::Color::Ansi256(a) => (format!("{}", a.render_fg()), format!("{}", a.render_bg())),
        anstyle::Color::Rgb(a) => (format!("{}", a.render_fg()), format!("{}", a.render_bg())),
    };
    if tfg != fg || tbg != bg {
        return Err(("c05:color:typed-vs-enum".into(), format!("typed render {:?}/{:?} != Color render {:?}/{:?}", show(tfg.as_bytes()), show(tbg.as_bytes()), show(fg.as_bytes()), show(bg.as_bytes()))));
    }
    if with_grid {
        let mut v = vec![];
        grid!(color.render_fg(), v, false);
        grid!(color.render_fg(), v, true);
        all_equal("color-fg", &fg, &v)?;
        let mut v = vec![];
        grid!(color.render_bg(), v, false);
        grid!(color.render_bg(), v, true);
        all_equal("color-bg", &bg, &v)?;
    }
    Ok(())
}

fn check_effects(bits: u16, with_grid: bool) -> Result<(), (String, String)> {
    let e = effects_of(bits);
    let s = format!("{}", e.render());
    let got = interpret_pure(s.as_bytes(), SgrState::default()).map_err(|e| ("c05:effects:not-pure-sgr".to_string(), e))?;
    if got != (SgrState { fx: bits, ..Default::default() }) {
        return Err(("c05:effects:round-trip".into(), format!("effects {bits:#05x} render {:?}, read back as [{}]", show(s.as_bytes()), got.describe())));
    }
    if with_grid {
        let mut v = vec![];
        grid!(e.render(), v, false);
        grid!(e.render(), v, true);
        all_equal("effects", &s, &v)?;
    }
    Ok(())
}

fn check_reset() -> Result<(), (String, String)> {
    let r = format!("{}", anstyle::Reset);
    let full = SgrState { fg: Some(Col::P16(1)), bg: Some(Col::Idx(200)), ul: Some(Col::Rgb(1, 2, 3)), fx: 0xfff };
    let after = interpret_pure(r.as_bytes(), full).map_err(|e| ("c05:Reset:not-pure-sgr".to_string(), e))?;
    if after != SgrState::default() || r.is_empty() {
        return Err(("c05:Reset".into(), format!("Reset renders {:?}, leaving [{}]", show(r.as_bytes()), after.describe())));
    }
    let mut v = vec![];
    grid!(anstyle::Reset, v, false);
    grid!(anstyle::Reset, v, true);
    grid!(anstyle::Reset.render(), v, false);
    all_equal("Reset", &r, &v)
}

fn rand_col(rng: &mut Rng) -> Option<Col> {
    match rng.below(5) {
        0 => None,
        1 => Some(Col::P16(rng.below(16) as u8)),
        2 => Some(Col::Idx(rng.byte())),
        _ => Some(Col::Rgb(rng.byte(), rng.byte(), rng.byte())),
    }
}

pub fn rand_state(rng: &mut Rng) -> SgrState {
    SgrState { fg: rand_col(rng), bg: rand_col(rng), ul: rand_col(rng), fx: if rng.chance(1, 4) { 0 } else { (rng.next() & 0xfff) as u16 } }
}

fn encode(s: SgrState) -> Case {
    let enc = |c: Option<Col>| -> i64 {
        match c {
            None => -1,
            Some(Col::P16(n)) => 0x1000000 + n as i64,
            Some(Col::Idx(n)) => 0x2000000 + n as i64,
            Some(Col::Rgb(r, g, b)) => 0x3000000 + ((r as i64) << 16) + ((g as i64) << 8) + b as i64,
        }
    };
    Case::new("c05-style").n(enc(s.fg)).n(enc(s.bg)).n(enc(s.ul)).n(s.fx as i64)
}

fn decode(c: &Case) -> SgrState {
    let dec = |v: i64| -> Option<Col> {
        match v >> 24 {
            1 => Some(Col::P16((v & 0xf) as u8)),
            2 => Some(Col::Idx((v & 0xff) as u8)),
            3 => Some(Col::Rgb((v >> 16) as u8, (v >> 8) as u8, v as u8)),
            _ => None,
        }
    };
    let g = |i: usize| c.nums.get(i).copied().unwrap_or(-1);
    SgrState { fg: dec(g(0)), bg: dec(g(1)), ul: dec(g(2)), fx: (g(3).max(0) as u16) & 0xfff }
}

fn eval_style(s: SgrState, grid: bool, st: &mut Stats, enumerated: bool) {
    st.eval();
    if s != SgrState::default() {
        if enumerated {
            st.nontrivial_enum();
        } else {
            let c = encode(s);
            let mut key = vec![];
            for n in &c.nums {
                key.extend_from_slice(&n.to_le_bytes());
            }
            st.nontrivial_hash(hash64(&key));
        }
    }
    if grid {
        st.count("styles_checked_under_format_flag_grid");
    }
    match crate::guarded(|| check_style(s, grid)) {
        Ok(Ok(())) => {}
        Ok(Err((sig, msg))) => st.viol(&sig, msg, encode(s)),
        Err(p) => st.viol("c05:panic", format!("panicked: {p}"), encode(s)),
    }
}

pub fn run(cfg: &Cfg) -> Stats {
    let (nrand, ngrid) = match cfg.tier {
        Tier::Tiny => (200u64, 5u64),
        Tier::Quick => (200_000, 2_000),
        Tier::Thorough => (5_000_000, 50_000),
    };
    let cross_all_slots = cfg.tier == Tier::Thorough;
    let full_rgb = cfg.tier == Tier::Thorough;
    let mut st = par(cfg, |shard, n| {
        let mut st = Stats::new();
        let mut k = 0u64;
        // (interpreter lanes: one case in eight of every enumerated family)
        let stride = if cfg.tier == Tier::Tiny { 8 * n } else { n };
        let mut mine = || {
            k += 1;
            k % stride == shard
        };
        if shard == 0 {
            st.eval();
            st.nontrivial_enum();
            if let Err((sig, msg)) = check_reset() {
                st.viol(&sig, msg, Case::new("c05-reset"));
            }
        }
        // all 4096 effect sets (alone and inside a style)
        for bits in 0..4096u16 {
            if !mine() {
                continue;
            }
            st.eval();
            st.nontrivial_enum();
            if let Err((sig, msg)) = check_effects(bits, bits % 64 == 0) {
                st.viol(&sig, msg, Case::new("c05-effects").n(bits as i64));
            }
            eval_style(SgrState { fx: bits, ..Default::default() }, bits % 97 == 0, &mut st, true);
        }
        // every colour of every kind alone and in each of the three slots
        let mut colours: Vec<Col> = (0..16).map(Col::P16).collect();
        colours.extend((0..=255u8).map(Col::Idx));
        for (ci, c) in colours.iter().enumerate() {
            if !mine() {
                continue;
            }
            st.eval();
            st.nontrivial_enum();
            if let Err((sig, msg)) = check_color(*c, ci % 16 == 0) {
                st.viol(&sig, msg, Case::new("c05-color").n(ci as i64));
            }
            for slot in 0..3 {
                let mut s = SgrState::default();
                match slot {
                    0 => s.fg = Some(*c),
                    1 => s.bg = Some(*c),
                    _ => s.ul = Some(*c),
                }
                eval_style(s, ci % 50 == 0, &mut st, true);
            }
        }
        // every value of every RGB component in every slot, the other components random
        let mut rng = Rng::new(cfg.seed, 0xC05_0000_0000 + shard);
        for comp in 0..3 {
            for v in 0..=255u8 {
                if !mine() {
                    continue;
                }
                for slot in 0..3 {
                    let mut rgb = [rng.byte(), rng.byte(), rng.byte()];
                    rgb[comp] = v;
                    let c = Col::Rgb(rgb[0], rgb[1], rgb[2]);
                    let mut s = rand_state(&mut rng);
                    match slot {
                        0 => s.fg = Some(c),
                        1 => s.bg = Some(c),
                        _ => s.ul = Some(c),
                    }
                    eval_style(s, false, &mut st, false);
                    st.eval();
                    if let Err((sig, msg)) = check_color(c, false) {
                        st.viol(&sig, msg, Case::new("c05-color-rgb").n(rgb[0] as i64).n(rgb[1] as i64).n(rgb[2] as i64));
                    }
                }
            }
        }
        // greys and two-equal-component colours in every slot (renderers that special-case equal components)
        for v in 0..=255u8 {
            if !mine() {
                continue;
            }
            let o = rng.byte();
            for rgb in [[v, v, v], [v, v, o], [v, o, v], [o, v, v]] {
                let c = Col::Rgb(rgb[0], rgb[1], rgb[2]);
                st.eval();
                if let Err((sig, msg)) = check_color(c, false) {
                    st.viol(&sig, msg, Case::new("c05-color-rgb").n(rgb[0] as i64).n(rgb[1] as i64).n(rgb[2] as i64));
                }
                for slot in 0..3 {
                    let mut s = SgrState::default();
                    match slot {
                        0 => s.fg = Some(c),
                        1 => s.bg = Some(c),
                        _ => s.ul = Some(c),
                    }
                    eval_style(s, false, &mut st, true);
                }
            }
        }
        // the same colour in two or three slots, next to a different one (renderers that reuse an encoded colour): every
        // assignment of {c, d, none} to the three slots for colour pairs of every kind
        {
            let mut pairs: Vec<(Col, Col)> = vec![
                (Col::Rgb(10, 20, 30), Col::Rgb(200, 100, 0)),
                (Col::Rgb(255, 255, 255), Col::P16(1)),
                (Col::Rgb(0, 0, 0), Col::Idx(200)),
                (Col::Idx(9), Col::Idx(196)),
                (Col::P16(3), Col::P16(11)),
                (Col::P16(5), Col::Idx(5)),
                (Col::Idx(17), Col::Rgb(0, 0, 95)),
            ];
            for _ in 0..6 {
                pairs.push((Col::Rgb(rng.byte(), rng.byte(), rng.byte()), rand_col(&mut rng).unwrap_or(Col::P16(2))));
            }
            for (c, d) in pairs {
                for code in 0..27u8 {
                    if !mine() {
                        continue;
                    }
                    let slot = |k: u8| match k {
                        0 => None,
                        1 => Some(c),
                        _ => Some(d),
                    };
                    for fx in [0u16, 1, 0b1000_0000_1010] {
                        eval_style(SgrState { fg: slot(code % 3), bg: slot(code / 3 % 3), ul: slot(code / 9), fx }, false, &mut st, true);
                    }
                }
            }
        }
        // every effect set combined with every palette colour as the only colour (renderers with combined fast paths);
        // the thorough tier does this for each slot and also with a second colour present
        for bits in 0..4096u16 {
            if !mine() {
                continue;
            }
            for n16 in 0..16u8 {
                eval_style(SgrState { fg: Some(Col::P16(n16)), fx: bits, ..Default::default() }, false, &mut st, true);
                if cross_all_slots {
                    eval_style(SgrState { bg: Some(Col::P16(n16)), fx: bits, ..Default::default() }, false, &mut st, true);
                    eval_style(SgrState { ul: Some(Col::P16(n16)), fx: bits, ..Default::default() }, false, &mut st, true);
                    eval_style(SgrState { fg: Some(Col::P16(n16)), bg: Some(Col::P16(15 - n16)), fx: bits, ..Default::default() }, false, &mut st, true);
                    eval_style(SgrState { fg: Some(Col::Idx(n16)), fx: bits, ..Default::default() }, false, &mut st, true);
                }
            }
        }
        // long renderings: every effect set with maximal RGB foreground and background and each kind of underline colour
        // (buffers and length estimates sized for the common case)
        for bits in 0..4096u16 {
            if !mine() {
                continue;
            }
            let big = Some(Col::Rgb(255, 128, 200));
            for ul in [None, Some(Col::P16((bits % 16) as u8)), Some(Col::Idx(200 + (bits % 56) as u8)), Some(Col::Rgb(255, 255, 255))] {
                eval_style(SgrState { fg: big, bg: Some(Col::Rgb(100, 255, 199)), ul, fx: bits }, false, &mut st, true);
            }
            eval_style(SgrState { fg: Some(Col::Idx(255)), bg: big, ul: Some(Col::P16(15 - (bits % 16) as u8)), fx: bits }, false, &mut st, true);
        }
        // single effects and pairs of effects with every pair of palette colours in (fg, bg)
        for a in 0..12u16 {
            for b in a..12u16 {
                if !mine() {
                    continue;
                }
                for f in 0..16u8 {
                    for g in 0..16u8 {
                        eval_style(SgrState { fg: Some(Col::P16(f)), bg: Some(Col::P16(g)), fx: (1 << a) | (1 << b), ..Default::default() }, false, &mut st, true);
                    }
                }
            }
        }
        if full_rgb {
            // every 24-bit colour through the colour renderers (fg / bg / underline forms)
            for r in 0..=255u8 {
                if !mine() {
                    continue;
                }
                for g in 0..=255u8 {
                    for b in 0..=255u8 {
                        st.eval();
                        st.nontrivial_enum();
                        if let Err((sig, msg)) = check_color(Col::Rgb(r, g, b), false) {
                            st.viol(&sig, msg, Case::new("c05-color-rgb").n(r as i64).n(g as i64).n(b as i64));
                        }
                    }
                }
            }
        }
        // random full styles, some under the format-flag grid
        let mut i = shard;
        while i < nrand {
            let mut rng = Rng::new(cfg.seed, 0xC05_4000_0000 + i);
            let s = rand_state(&mut rng);
            if i < 4 {
                st.sample(6, || {
                    let mut o = J::obj();
                    o.set("style", J::s(s.describe()));
                    o.set("rendered", J::s(show(format!("{}", style_of(s)).as_bytes())));
                    o.set("reset", J::s(show(format!("{:#}", style_of(s)).as_bytes())));
                    o
                });
            }
            eval_style(s, i < ngrid, &mut st, false);
            i += n;
        }
        st
    });
    st.exhaustive_parts.push(format!(
        "all 4096 effect sets; all 16 palette and 256 indexed colours in each of the three slots; all 256 values of each RGB component in each slot; all 256 greys and all two-equal-component patterns in each slot; all 4096 effect sets x 16 palette foregrounds{}; all single effects and pairs of effects x 16 x 16 palette (fg, bg) pairs; all 4096 effect sets with three-digit RGB foreground / background and each kind of underline colour{}",
        if cross_all_slots { " (and backgrounds, underline colours, fg+bg pairs, indexed 0-15)" } else { "" },
        if full_rgb { "; all 2^24 RGB colours through the colour renderers" } else { "" }
    ));
    st
}

pub fn replay(case: &Case) -> Result<String, Viol> {
    let r = match case.kind.as_str() {
        "c05-effects" => crate::guarded(|| check_effects(case.nums.first().copied().unwrap_or(0) as u16 & 0xfff, true)),
        "c05-reset" => crate::guarded(check_reset),
        "c05-color" => {
            let i = case.nums.first().copied().unwrap_or(0) as usize;
            let c = if i < 16 { Col::P16(i as u8) } else { Col::Idx((i - 16) as u8) };
            crate::guarded(|| check_color(c, true))
        }
        "c05-color-rgb" => {
            let g = |i: usize| case.nums.get(i).copied().unwrap_or(0) as u8;
            crate::guarded(|| check_color(Col::Rgb(g(0), g(1), g(2)), true))
        }
        _ => {
            let s = decode(case);
            crate::guarded(|| check_style(s, true))
        }
    };
    match r {
        Ok(Ok(())) => Ok("rendering is pure SGR and round-trips".into()),
        Ok(Err((sig, msg))) => Err(Viol { case: case.clone(), msg, sig }),
        Err(p) => Err(Viol { case: case.clone(), msg: format!("panicked: {p}"), sig: "c05:panic".into() }),
    }
}

#[allow(dead_code)]
fn _unused(_: &dyn Display) {}
