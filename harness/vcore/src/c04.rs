//! C04 — no panic, overflow or memory error on any untrusted input.
//!
//! This module is the workload + the cheap in-process oracles (no panic; returned `&str` pieces are valid UTF-8 and lie
//! inside the input).  The memory-safety verdicts come from the lanes the driver runs it under: debug assertions +
//! overflow checks, release (where `from_utf8_unchecked` really is unchecked), Miri, AddressSanitizer, valgrind.
use crate::{par, Case, Cfg, Stats, Tier, Viol};
use anstream::adapter::{StripBytes, StripStr, WinconBytes};
use refmodel::gen::{self, Chunker};
use refmodel::json::{show, J};
use refmodel::rng::{hash64, Rng};
use std::io::{IoSlice, Write};

fn in_range(outer: &[u8], inner: &[u8]) -> bool {
    let o = outer.as_ptr() as usize;
    let i = inner.as_ptr() as usize;
    i >= o && i + inner.len() <= o + outer.len()
}

type R = Result<(), (String, String)>;

fn step<T>(name: &str, f: impl FnOnce() -> T) -> Result<T, (String, String)> {
    crate::guarded(f).map_err(|p| (format!("c04:{name}:panic"), format!("{name} panicked: {p}")))
}

pub fn arbitrary_unicode(rng: &mut Rng, max: u64) -> String {
    let n = rng.range(0, max);
    let mut s = String::new();
    for _ in 0..n {
        let c = match rng.below(10) {
            0 => char::from_u32(rng.below(0x20) as u32).unwrap(),
            1 => '\x1b',
            2 => *rng.pick(&['[', ']', ';', ':', 'm', '#', '0', '9', '?', ' ', '\\', '\x07', '\x7f', 'P', '^', '_', 'X']),
            3 => char::from_u32(rng.range(0x20, 0x7e) as u32).unwrap(),
            4 => char::from_u32(rng.range(0x80, 0x9f) as u32).unwrap(),
            5 => char::from_u32(rng.range(0xa0, 0x7ff) as u32).unwrap(),
            6 => char::from_u32(rng.range(0x800, 0xd7ff) as u32).unwrap(),
            7 => char::from_u32(rng.range(0xe000, 0xffff) as u32).unwrap(),
            8 => char::from_u32(rng.range(0x10000, 0x10ffff) as u32).unwrap(),
            _ => *rng.pick(&['\u{200b}', '\u{301}', '\u{feff}', '\u{fffd}', '\u{ffff}', '\u{10ffff}', '\u{2028}', '\u{e9}']),
        };
        s.push(c);
    }
    s
}

/// sequences sitting exactly on the documented limits
pub fn boundary_rich(rng: &mut Rng) -> Vec<u8> {
    let mut out = vec![];
    for _ in 0..rng.range(1, 4) {
        match rng.below(8) {
            0 => {
                // 31..34 parameters, mixed separators
                out.extend_from_slice(b"\x1b[");
                let n = rng.range(30, 36);
                for i in 0..n {
                    if i > 0 {
                        out.push(if rng.chance(1, 3) { b':' } else { b';' });
                    }
                    out.extend_from_slice(rng.range(0, 70000).to_string().as_bytes());
                }
                out.push(*rng.pick(b"mHq"));
            }
            1 => {
                // 2..4 intermediates
                out.extend_from_slice(b"\x1b[1");
                for _ in 0..rng.range(1, 5) {
                    out.push(rng.range(0x20, 0x2f) as u8);
                }
                out.push(b'm');
            }
            2 => {
                // 15..18 OSC fields
                out.extend_from_slice(b"\x1b]");
                for i in 0..rng.range(14, 19) {
                    if i > 0 {
                        out.push(b';');
                    }
                    out.extend_from_slice(b"ab");
                }
                out.extend_from_slice(*rng.pick(&[&b"\x07"[..], b"\x1b\\", b"\x18", b"\x1a", b"", b";\x07", b";;\x1b\\"]));
            }
            3 => {
                // OSC payload around 1024 bytes
                out.extend_from_slice(b"\x1b]0;");
                for _ in 0..rng.range(1000, 1100) {
                    out.push(rng.range(0x20, 0x7e) as u8);
                }
                out.extend_from_slice(b"\x1b\\");
            }
            4 => {
                out.extend_from_slice(b"\x1b[");
                out.extend_from_slice("9".repeat(rng.range(1, 40) as usize).as_bytes());
                out.push(b'm');
            }
            5 => {
                // DCS with 32+ params
                out.extend_from_slice(b"\x1bP");
                for i in 0..rng.range(30, 35) {
                    if i > 0 {
                        out.push(b';');
                    }
                    out.push(b'1');
                }
                out.extend_from_slice(b"qdata\x1b\\");
            }
            6 => {
                // extended colours with out-of-range values
                out.extend_from_slice(format!("\x1b[38;5;{}m\x1b[48;2;{};{};{}m\x1b[58:2::{}:{}:{}m", rng.range(250, 70000), rng.range(250, 300), rng.range(0, 70000), rng.range(0, 300), rng.range(0, 300), rng.range(0, 300), rng.range(0, 300)).as_bytes());
            }
            _ => {
                // truncated multi-byte characters next to controls
                const TRUNC: [&[u8]; 5] = [b"\xf0\x9f\x98", b"\xe2\x9c", b"\xc3", b"\xed\xa0\x80", b"\xf4\x90\x80\x80"];
                let t: &[u8] = *rng.pick(&TRUNC[..]);
                out.extend_from_slice(t);
                out.push(*rng.pick(b"\x1b\x07\x00\x7fA\n"));
            }
        }
        gen::push_text(rng, &mut out, 4);
    }
    out
}

/// Everything that consumes terminal output, on one input.
pub fn exercise_bytes(data: &[u8], rng: &mut Rng) -> R {
    // parser
    step("Parser::advance", || {
        let r = crate::adapt::real_parse(data);
        r.ev.len()
    })?;
    // one-shot strip
    let pieces = step("strip_bytes", || anstream::adapter::strip_bytes(data).collect::<Vec<_>>())?;
    for p in &pieces {
        if !in_range(data, p) {
            return Err(("c04:strip_bytes:out-of-range".into(), "a returned piece does not lie inside the input".into()));
        }
    }
    if let Ok(s) = std::str::from_utf8(data) {
        let pieces = step("strip_str", || anstream::adapter::strip_str(s).collect::<Vec<_>>())?;
        for p in &pieces {
            if !in_range(data, p.as_bytes()) {
                return Err(("c04:strip_str:out-of-range".into(), "a returned piece does not lie inside the input".into()));
            }
            if std::str::from_utf8(p.as_bytes()).is_err() {
                return Err(("c04:strip_str:invalid-utf8".into(), format!("strip_str returned a piece that is not valid UTF-8: {:?}", show(p.as_bytes()))));
            }
        }
        step("strip_str.to_string", || anstream::adapter::strip_str(s).to_string())?;
        // incremental text API at char boundaries
        let cuts = gen::cuts_to_char_boundaries(s, &gen::chunk_cuts(rng, data.len(), Chunker::Random(9)));
        step("StripStr::strip_next", || {
            let mut st = StripStr::new();
            let mut prev = 0;
            let mut bad = None;
            for &c in cuts.iter().chain(std::iter::once(&s.len())) {
                let chunk = &s[prev..c];
                for p in st.strip_next(chunk) {
                    if !in_range(chunk.as_bytes(), p.as_bytes()) || std::str::from_utf8(p.as_bytes()).is_err() {
                        bad = Some(show(p.as_bytes()));
                    }
                }
                prev = c;
            }
            bad
        })
        .and_then(|bad| match bad {
            None => Ok(()),
            Some(b) => Err(("c04:StripStr:invalid-piece".into(), format!("StripStr returned an invalid or out-of-range piece {b:?}"))),
        })?;
        // converters
        step("render_svg", || anstyle_svg::Term::new().render_svg(s).len())?;
        step("render_svg(win10,nobg)", || anstyle_svg::Term::new().palette(anstyle_svg::WIN10_CONSOLE).background(false).min_width_px(0).render_svg(s).len())?;
        step("to_roff", || {
            let r = anstyle_roff::to_roff(s);
            r.to_roff().len() + r.render().len()
        })?;
        step("anstyle_git::parse", || anstyle_git::parse(s).is_ok())?;
        step("anstyle_ls::parse", || anstyle_ls::parse(s).is_some())?;
    }
    // incremental byte APIs under a random chunking
    let chunker = [Chunker::Single, Chunker::Random(3), Chunker::Random(17), Chunker::Whole][rng.below(4) as usize];
    let cuts = gen::chunk_cuts(rng, data.len(), chunker);
    let chunks = gen::split_at_cuts(data, &cuts);
    step("StripBytes::strip_next", || {
        let mut st = StripBytes::new();
        let mut ok = true;
        for c in &chunks {
            for p in st.strip_next(c) {
                ok &= in_range(c, p);
            }
        }
        ok
    })
    .and_then(|ok| if ok { Ok(()) } else { Err(("c04:StripBytes:out-of-range".into(), "a returned piece does not lie inside its chunk".into())) })?;
    step("WinconBytes::extract_next", || {
        let mut wb = WinconBytes::new();
        let mut n = 0;
        for c in &chunks {
            for (_, t) in wb.extract_next(c) {
                n += t.len();
            }
        }
        n
    })?;
    // the strip stream, every write method
    step("StripStream", || {
        let mut s = anstream::StripStream::new(Vec::new());
        for (i, c) in chunks.iter().enumerate() {
            match i % 4 {
                0 => {
                    let _ = s.write(c);
                }
                1 => {
                    let _ = s.write_all(c);
                }
                2 => {
                    let _ = s.write_vectored(&[IoSlice::new(&[]), IoSlice::new(c)]);
                }
                _ => {
                    let _ = write!(s, "{}", String::from_utf8_lossy(c));
                }
            }
        }
        let _ = s.flush();
        s.into_inner().len()
    })?;
    step("AutoStream::never", || {
        let mut s = anstream::AutoStream::never(Vec::new());
        for c in &chunks {
            let _ = s.write_all(c);
        }
        s.into_inner().len()
    })?;
    Ok(())
}

pub fn exercise_values(rng: &mut Rng) -> R {
    // lossy conversion with any palette
    let mut raw = [anstyle::RgbColor(0, 0, 0); 16];
    let mode = rng.below(4);
    let one = anstyle::RgbColor(rng.byte(), rng.byte(), rng.byte());
    for e in raw.iter_mut() {
        *e = match mode {
            0 => anstyle::RgbColor(rng.byte(), rng.byte(), rng.byte()),
            1 => one,
            2 => anstyle::RgbColor(*rng.pick(&[0u8, 255]), *rng.pick(&[0u8, 255]), *rng.pick(&[0u8, 255])),
            _ => {
                if rng.chance(1, 2) {
                    one
                } else {
                    anstyle::RgbColor(rng.byte(), 0, 255)
                }
            }
        };
    }
    let pal = anstyle_lossy::palette::Palette(raw);
    let colors = [
        anstyle::Color::Rgb(anstyle::RgbColor(rng.byte(), rng.byte(), rng.byte())),
        anstyle::Color::Rgb(anstyle::RgbColor(*rng.pick(&[0u8, 255]), *rng.pick(&[0u8, 255]), *rng.pick(&[0u8, 255]))),
        anstyle::Color::Ansi256(anstyle::Ansi256Color(rng.byte())),
        anstyle::Color::Ansi(crate::adapt::ANSI16[rng.below(16) as usize]),
    ];
    for c in colors {
        step("anstyle_lossy", || {
            let a = anstyle_lossy::color_to_ansi(c, pal);
            let x = anstyle_lossy::color_to_xterm(c);
            let r = anstyle_lossy::color_to_rgb(c, pal);
            let _ = anstyle_lossy::xterm_to_ansi(x, pal);
            let _ = anstyle_lossy::xterm_to_rgb(x, pal);
            let _ = anstyle_lossy::rgb_to_ansi(r, pal);
            let _ = anstyle_lossy::rgb_to_xterm(r);
            let _ = anstyle_lossy::ansi_to_rgb(a, pal);
            let _ = pal.get(a);
            let _ = pal[a];
        })?;
    }
    // rendering of style values (the fixed display buffer)
    let s = crate::c05::rand_state(rng);
    let style = crate::adapt::style_of(s);
    step("Style rendering", || {
        let a = format!("{style}{style:#}{}{}", style.render(), style.render_reset());
        let mut v = vec![];
        let _ = style.write_to(&mut v);
        let _ = style.write_reset_to(&mut v);
        let mut n = a.len() + v.len();
        for c in [style.get_fg_color(), style.get_bg_color(), style.get_underline_color()].into_iter().flatten() {
            n += format!("{}{}{:>30}", c.render_fg(), c.render_bg(), c.render_fg()).len();
        }
        n += format!("{}{:?}", style.get_effects().render(), style.get_effects()).len();
        n
    })?;
    // extreme colour values exercise the longest codes
    for c in [anstyle::Color::Rgb(anstyle::RgbColor(255, 255, 255)), anstyle::Color::Ansi256(anstyle::Ansi256Color(255)), anstyle::Color::Rgb(anstyle::RgbColor(0, 0, 0))] {
        step("Color rendering", || {
            let st = anstyle::Style::new().fg_color(Some(c)).bg_color(Some(c)).underline_color(Some(c));
            format!("{st}{}{}", c.render_fg(), c.render_bg()).len()
        })?;
    }
    Ok(())
}

fn eval_bytes(data: &[u8], st: &mut Stats, rng: &mut Rng, kind: &str) {
    st.eval();
    st.count(&format!("inputs_{kind}"));
    if data.iter().any(|b| *b < 0x20 || *b >= 0x7f) {
        st.nontrivial_hash(hash64(data));
    }
    if let Err((sig, msg)) = exercise_bytes(data, rng) {
        st.viol(&sig, format!("[{kind}] {msg} -- input {:?}", show(&data[..data.len().min(120)])), Case::new("c04").b(data));
    }
}

pub fn run(cfg: &Cfg) -> Stats {
    let n = match cfg.tier {
        Tier::Tiny => 64u64,
        Tier::Quick => 50_000,
        Tier::Thorough => 2_000_000,
    };
    let mut st = par(cfg, |shard, nsh| {
        let mut st = Stats::new();
        let mut i = shard;
        while i < n {
            let mut rng = Rng::new(cfg.seed, 0xC04_0000_0000 + i);
            match i % 8 {
                7 => {
                    // one long piece whose length sits on a power-of-two threshold (buffers, block sizes, widths)
                    // (interpreter lanes: thresholds up to 1 KiB, so that no shard is minutes longer than the others)
                    let thr = if cfg.tier == Tier::Tiny { 1024 } else { 16384 };
                    let d = if i % 16 == 7 { gen::gen_long_stream(&mut rng, thr, true) } else { gen::threshold_document(gen::long_len(&mut rng, thr), (i % 4) as u8, i % 3 == 0) };
                    eval_bytes(&d, &mut st, &mut rng, "long_threshold");
                }
                0 => {
                    let len = rng.range(0, 200);
                    let d: Vec<u8> = (0..len).map(|_| rng.byte()).collect();
                    eval_bytes(&d, &mut st, &mut rng, "arbitrary_bytes");
                }
                1 => {
                    let d = gen::gen_stream(&mut rng, 600, false);
                    eval_bytes(&d, &mut st, &mut rng, "hostile_stream");
                }
                2 => {
                    let d = gen::gen_stream(&mut rng, 600, true);
                    eval_bytes(&d, &mut st, &mut rng, "hostile_stream_utf8");
                }
                3 => {
                    let d = boundary_rich(&mut rng);
                    eval_bytes(&d, &mut st, &mut rng, "boundary_rich");
                }
                4 => {
                    let d = arbitrary_unicode(&mut rng, 60).into_bytes();
                    eval_bytes(&d, &mut st, &mut rng, "arbitrary_unicode");
                }
                5 => {
                    let d = gen::gen_sgr_text(&mut rng, gen::SgrOpts { blink: true, ..Default::default() }, 25, &["&", "<", "]]>", "\u{c}", "\u{7f}"]);
                    eval_bytes(&d, &mut st, &mut rng, "sgr_text");
                }
                _ => {
                    // style-text parsers: near-valid git / LS_COLORS strings with foreign characters spliced in
                    let mut s = String::new();
                    for _ in 0..rng.range(0, 5) {
                        s.push_str(*rng.pick(&["bold", "#", "#ff", "red", "no", "-1", "255", ";", "38;5;", "48;2;1;2", "+5", " ", "\t", "ul", "#\u{e9}1", "#\u{ff10}00", "\u{212a}", "0", "00;", ":", "4:3"]));
                        if rng.chance(1, 3) {
                            s.push_str(&arbitrary_unicode(&mut rng, 3));
                        }
                    }
                    eval_bytes(s.as_bytes(), &mut st, &mut rng, "style_text");
                }
            }
            st.eval();
            if let Err((sig, msg)) = exercise_values(&mut rng) {
                st.viol(&sig, msg, Case::new("c04-values").n(cfg.seed as i64).n(i as i64));
            }
            if i < 8 {
                st.sample(8, || {
                    let mut o = J::obj();
                    o.set("kind_index", J::UInt(i % 8));
                    o.set("entry_points", J::s("Parser::advance, strip_bytes, strip_str, StripStr, StripBytes, WinconBytes, StripStream (write/write_all/write_vectored/write_fmt/flush), AutoStream::never, render_svg x2, to_roff/render, anstyle_git::parse, anstyle_ls::parse, anstyle_lossy x8 with a random palette, Style/Color/Effects rendering"));
                    o
                });
            }
            i += nsh;
        }
        st
    });
    // deterministic colour sweep: every grey and a lattice of component values around the cube / ramp levels, through the
    // lossy conversions with the two shipped palettes and through the colour renderers (tiny tier: every 8th grey)
    let sweep = par(cfg, |shard, nsh| {
        let mut st = Stats::new();
        let lv: &[u8] = if cfg.tier == Tier::Tiny { &[0, 95, 248, 255] } else { &[0, 1, 7, 8, 9, 47, 48, 94, 95, 96, 114, 115, 116, 135, 155, 175, 195, 215, 235, 238, 247, 248, 249, 254, 255] };
        let mut cols: Vec<[u8; 3]> = (0..=255u8).step_by(if cfg.tier == Tier::Tiny { 8 } else { 1 }).map(|v| [v, v, v]).collect();
        for r in lv {
            for g in lv {
                for b in lv {
                    cols.push([*r, *g, *b]);
                }
            }
        }
        for (k, c) in cols.iter().enumerate() {
            if k as u64 % nsh != shard {
                continue;
            }
            st.eval();
            st.nontrivial_enum();
            st.count("colour_sweep_values");
            let rgb = anstyle::RgbColor(c[0], c[1], c[2]);
            let r = step("anstyle_lossy", || {
                let x = anstyle_lossy::rgb_to_xterm(rgb);
                for pal in [anstyle_lossy::palette::VGA, anstyle_lossy::palette::WIN10_CONSOLE] {
                    let a = anstyle_lossy::rgb_to_ansi(rgb, pal);
                    let _ = anstyle_lossy::xterm_to_ansi(x, pal);
                    let _ = anstyle_lossy::color_to_rgb(anstyle::Color::Ansi(a), pal);
                }
                let col = anstyle::Color::Rgb(rgb);
                format!("{}{}{}", col.render_fg(), col.render_bg(), anstyle::Style::new().underline_color(Some(col))).len()
            });
            if let Err((sig, msg)) = r {
                st.viol(&sig, format!("{msg} -- colour {:?}", c), Case::new("c04-colour").n(c[0] as i64).n(c[1] as i64).n(c[2] as i64));
            }
        }
        st
    });
    st.merge(sweep);
    st.notes.push("oracles of this workload: no panic / no overflow trap; pieces returned by the text strip adapters are valid UTF-8 inside the input; everything else is watched by the lane (debug assertions, Miri, ASan, valgrind)".into());
    st
}

pub fn replay(case: &Case) -> Result<String, Viol> {
    let mut rng = Rng::new(1, 1);
    let r = if case.kind == "c04-colour" {
        let g = |i: usize| case.nums.get(i).copied().unwrap_or(0) as u8;
        let rgb = anstyle::RgbColor(g(0), g(1), g(2));
        step("anstyle_lossy", || {
            let _ = anstyle_lossy::rgb_to_xterm(rgb);
            let _ = anstyle_lossy::rgb_to_ansi(rgb, anstyle_lossy::palette::VGA);
            format!("{}", anstyle::Color::Rgb(rgb).render_fg()).len()
        })
        .map(|_| ())
    } else if case.kind == "c04-values" {
        let mut r2 = Rng::new(case.nums.first().copied().unwrap_or(1) as u64, 0xC04_0000_0000 + case.nums.get(1).copied().unwrap_or(0) as u64);
        exercise_values(&mut r2)
    } else {
        let data = case.bytes.first().cloned().unwrap_or_default();
        // try several chunkings: the failing one is not recorded
        let mut res = Ok(());
        for _ in 0..16 {
            res = exercise_bytes(&data, &mut rng);
            if res.is_err() {
                break;
            }
        }
        res
    };
    match r {
        Ok(()) => Ok("no panic, pieces valid".into()),
        Err((sig, msg)) => Err(Viol { case: case.clone(), msg, sig }),
    }
}

/// Deliberately broken snippets: each sanitizer lane must report its canary, otherwise the lane proves nothing.
pub fn canary(kind: &str) -> i32 {
    match kind {
        "heap-overflow" => {
            let v = vec![1u8; 8];
            let p = v.as_ptr();
            // read one byte past the allocation
            let x = unsafe { std::ptr::read_volatile(p.add(8)) };
            println!("canary read {x}");
            0
        }
        "uninit" => {
            let x: u8 = unsafe { std::mem::MaybeUninit::<u8>::uninit().assume_init() };
            if x > 3 {
                println!("canary branch a");
            } else {
                println!("canary branch b");
            }
            0
        }
        "overflow" => {
            let a = std::hint::black_box(250u8);
            let b = a + std::hint::black_box(10u8);
            println!("canary sum {b}");
            0
        }
        _ => 2,
    }
}
