//! C08 — AutoStream modes: `Never` strips exactly like the strip stream, `AlwaysAnsi` / `Always` forward unchanged.
use crate::c06::{Scripted, Shared, Step};
use crate::{par, Case, Cfg, Stats, Tier, Viol};
use anstream::{AutoStream, ColorChoice, StripStream};
use refmodel::gen::{self, Chunker};
use refmodel::json::{show, J};
use refmodel::rng::{hash64, Rng};
use std::cell::RefCell;
use std::io::{ErrorKind, IoSlice, Read, Seek, Write};
use std::rc::Rc;

#[derive(Clone, Debug)]
pub enum Op {
    Write(usize, usize),
    WriteAll(usize, usize),
    /// three consecutive slices (the middle one possibly empty)
    WriteVectored(usize, usize, usize),
    WriteFmt(usize, usize),
    Flush,
}

#[derive(Clone, Debug, PartialEq, Eq)]
pub enum Res {
    N(usize),
    Unit,
    Err(ErrorKind),
}

struct Frag<'a>(&'a str);
impl std::fmt::Display for Frag<'_> {
    fn fmt(&self, f: &mut std::fmt::Formatter<'_>) -> std::fmt::Result {
        f.write_str(self.0)
    }
}

fn char_floor(s: &str, mut i: usize) -> usize {
    while !s.is_char_boundary(i) {
        i -= 1;
    }
    i
}

/// Apply the operation sequence; `write` follows the standard protocol only in that the data of later ops do not
/// depend on earlier results (every stream sees the same calls).
pub fn drive(w: &mut dyn Write, data: &[u8], ops: &[Op]) -> Vec<Res> {
    let mut out = Vec::with_capacity(ops.len());
    for op in ops {
        let r = match op {
            Op::Write(a, b) => w.write(&data[*a..*b]).map(Res::N),
            Op::WriteAll(a, b) => w.write_all(&data[*a..*b]).map(|_| Res::Unit),
            Op::WriteVectored(a, m, b) => {
                let q = *m + (*b - *m) / 2;
                let bufs = [IoSlice::new(&data[*a..*a]), IoSlice::new(&data[*a..*m]), IoSlice::new(&data[*m..q]), IoSlice::new(&data[q..*b])];
                w.write_vectored(&bufs).map(Res::N)
            }
            // a piece that is one of C06's literals goes out as `write!(w, "<literal>")` (no run-time arguments)
            Op::WriteFmt(a, b) if crate::c06::LITERALS.iter().any(|l| l.as_bytes() == &data[*a..*b]) => {
                let k = crate::c06::LITERALS.iter().position(|l| l.as_bytes() == &data[*a..*b]).unwrap();
                crate::c06::write_literal(w, k).map(|_| Res::Unit)
            }
            Op::WriteFmt(a, b) => match std::str::from_utf8(&data[*a..*b]) {
                Ok(s) => {
                    let m = char_floor(s, s.len() / 2);
                    write!(w, "{}{}", Frag(&s[..m]), Frag(&s[m..])).map(|_| Res::Unit)
                }
                Err(_) => w.write_all(&data[*a..*b]).map(|_| Res::Unit),
            },
            Op::Flush => w.flush().map(|_| Res::Unit),
        };
        out.push(match r {
            Ok(r) => r,
            Err(e) => Res::Err(e.kind()),
        });
    }
    out
}

pub fn gen_ops(rng: &mut Rng, data: &[u8]) -> Vec<Op> {
    // consecutive pieces of the data, each handed to a randomly chosen method
    let n = data.len();
    let chunker = *rng.pick(&[Chunker::Random(5), Chunker::Random(40), Chunker::Random(300), Chunker::Whole]);
    let cuts = if n < 2 { vec![] } else { gen::chunk_cuts(rng, n, chunker) };
    let mut bounds = vec![0];
    bounds.extend(cuts);
    bounds.push(n);
    let mut ops = vec![];
    for w in bounds.windows(2) {
        let (a, b) = (w[0], w[1]);
        match rng.below(9) {
            0 | 1 => ops.push(Op::Write(a, b)),
            2 | 3 | 4 => ops.push(Op::WriteAll(a, b)),
            5 => ops.push(Op::WriteVectored(a, a + (b - a) / 2, b)),
            6 | 7 => ops.push(Op::WriteFmt(a, b)),
            _ => {
                // a flush followed by any kind of call (also: only vectored writes between two flushes)
                ops.push(Op::Flush);
                match rng.below(4) {
                    0 => ops.push(Op::WriteAll(a, b)),
                    1 => ops.push(Op::Write(a, b)),
                    2 => ops.push(Op::WriteFmt(a, b)),
                    _ => {
                        ops.push(Op::WriteVectored(a, a + (b - a) / 2, b));
                        if rng.chance(1, 2) {
                            ops.push(Op::Flush);
                        }
                    }
                }
            }
        }
    }
    if rng.chance(1, 2) {
        ops.push(Op::Flush);
    }
    ops
}

type R = Result<(), (String, String)>;

fn same(tag: &str, what: &str, a: &[Res], b: &[Res], ops: &[Op]) -> R {
    if a != b {
        let i = a.iter().zip(b).position(|(x, y)| x != y).unwrap_or(0);
        return Err((format!("c08:{tag}:results"), format!("call {i} ({:?}) returned {:?} through {what}, {:?} through the reference stream", ops.get(i), a.get(i), b.get(i))));
    }
    Ok(())
}

fn same_bytes(tag: &str, what: &str, a: &[u8], b: &[u8]) -> R {
    if a != b {
        return Err((format!("c08:{tag}:bytes"), format!("{what}: inner writer holds {:?}, expected {:?}", show(&a[..a.len().min(120)]), show(&b[..b.len().min(120)]))));
    }
    Ok(())
}

fn choice_is(tag: &str, got: ColorChoice, want: ColorChoice) -> R {
    // "the mode reported is the one in force": on this platform Always and AlwaysAnsi are the same mode (pass-through);
    // which of the two names a pass-through stream reports is not constrained
    let same_mode = |a: ColorChoice, b: ColorChoice| a == b || (matches!(a, ColorChoice::Always | ColorChoice::AlwaysAnsi) && matches!(b, ColorChoice::Always | ColorChoice::AlwaysAnsi));
    if !same_mode(got, want) {
        return Err((format!("c08:{tag}:current_choice"), format!("current_choice() = {got:?}, expected {want:?}")));
    }
    Ok(())
}

pub fn env_is_clean() -> bool {
    ["NO_COLOR", "CLICOLOR", "CLICOLOR_FORCE"].iter().all(|k| std::env::var_os(k).is_none()) && ColorChoice::global() == ColorChoice::Auto
}

pub fn check_vec(data: &[u8], ops: &[Op], auto_too: bool) -> R {
    // reference streams
    let mut plain: Vec<u8> = vec![];
    let r_plain = drive(&mut plain, data, ops);
    let mut strip = StripStream::new(Vec::new());
    let r_strip = drive(&mut strip, data, ops);
    let strip_bytes = strip.into_inner();
    // the method a piece of data arrives through does not matter: the bytes each call consumed, sent with write_all
    // only, give the same output
    {
        let mut only_write_all = StripStream::new(Vec::new());
        for (op, r) in ops.iter().zip(&r_strip) {
            let piece: &[u8] = match (op, r) {
                (Op::Write(a, _), Res::N(n)) | (Op::WriteVectored(a, _, _), Res::N(n)) => &data[*a..*a + *n],
                (Op::WriteAll(a, b), Res::Unit) | (Op::WriteFmt(a, b), Res::Unit) => &data[*a..*b],
                _ => &[],
            };
            let _ = only_write_all.write_all(piece);
        }
        same_bytes("strip-method-independence", "the consumed bytes re-sent with write_all only", &only_write_all.into_inner(), &strip_bytes)?;
    }
    // stripping modes
    let mut never: Vec<(&str, AutoStream<Vec<u8>>)> = vec![("new(Never)", AutoStream::new(Vec::new(), ColorChoice::Never)), ("never()", AutoStream::never(Vec::new()))];
    if auto_too {
        never.push(("new(Auto) on a non-terminal", AutoStream::new(Vec::new(), ColorChoice::Auto)));
        never.push(("auto() on a non-terminal", AutoStream::auto(Vec::new())));
    }
    for (name, mut s) in never {
        let r = drive(&mut s, data, ops);
        same("never", name, &r, &r_strip, ops)?;
        choice_is("never", s.current_choice(), ColorChoice::Never)?;
        if s.is_terminal() {
            return Err(("c08:never:is_terminal".into(), "a Vec reports to be a terminal".into()));
        }
        same_bytes("never", name, &s.into_inner(), &strip_bytes)?;
    }
    // pass-through modes
    let pass: Vec<(&str, AutoStream<Vec<u8>>)> = vec![
        ("new(AlwaysAnsi)", AutoStream::new(Vec::new(), ColorChoice::AlwaysAnsi)),
        ("always_ansi()", AutoStream::always_ansi(Vec::new())),
        ("new(Always)", AutoStream::new(Vec::new(), ColorChoice::Always)),
        ("always()", AutoStream::always(Vec::new())),
    ];
    for (name, mut s) in pass {
        let r = drive(&mut s, data, ops);
        same("always", name, &r, &r_plain, ops)?;
        choice_is("always", s.current_choice(), ColorChoice::AlwaysAnsi)?;
        same_bytes("always", name, &s.into_inner(), &plain)?;
    }
    // the same through a borrowed writer
    let mut v1: Vec<u8> = vec![];
    {
        let mut s = AutoStream::never(&mut v1);
        let r = drive(&mut s, data, ops);
        same("never-borrowed", "never(&mut Vec)", &r, &r_strip, ops)?;
        let _ = s.into_inner();
    }
    same_bytes("never-borrowed", "never(&mut Vec)", &v1, &strip_bytes)?;
    let mut v2: Vec<u8> = vec![];
    {
        let mut s = AutoStream::always_ansi(&mut v2);
        let r = drive(&mut s, data, ops);
        same("always-borrowed", "always_ansi(&mut Vec)", &r, &r_plain, ops)?;
    }
    same_bytes("always-borrowed", "always_ansi(&mut Vec)", &v2, &plain)?;
    // identity really is identity, and the strip stream delivers the stripped form of exactly what it consumed
    let consumed = |results: &[Res]| -> Vec<u8> {
        let mut v = vec![];
        for (op, r) in ops.iter().zip(results) {
            match (op, r) {
                (Op::Write(a, _), Res::N(n)) => v.extend_from_slice(&data[*a..*a + *n]),
                (Op::WriteVectored(a, _, _), Res::N(n)) => v.extend_from_slice(&data[*a..*a + *n]),
                (Op::WriteAll(a, b), Res::Unit) | (Op::WriteFmt(a, b), Res::Unit) => v.extend_from_slice(&data[*a..*b]),
                _ => {}
            }
        }
        v
    };
    same_bytes("always", "plain Vec", &plain, &consumed(&r_plain))?;
    for (op, r) in ops.iter().zip(&r_strip) {
        let len = match op {
            Op::Write(a, b) | Op::WriteVectored(a, _, b) => b - a,
            _ => continue,
        };
        match r {
            Res::N(n) if *n <= len => {}
            other => return Err(("c08:never:count".into(), format!("{op:?} on the strip stream returned {other:?} for {len} bytes"))),
        }
    }
    // (a short count or a vectored write can leave a gap inside a character: then the consumed bytes are not valid
    // UTF-8 any more and only C01's weaker rules apply)
    if std::str::from_utf8(&consumed(&r_strip)).is_ok() {
        let expect = refmodel::vt::ref_strip(&consumed(&r_strip));
        same_bytes("never", "StripStream vs reference stripper", &strip_bytes, &expect)?;
    }
    Ok(())
}

fn scripted(script: &[Step]) -> (Rc<RefCell<Shared>>, Box<dyn Write>) {
    let shared = Rc::new(RefCell::new(Shared { script: script.to_vec(), ..Default::default() }));
    let b: Box<dyn Write> = Box::new(Scripted(shared.clone()));
    (shared, b)
}

/// Do two runs offer their inner writers the same sequence of buffers?  Only then does the n-th scripted fault hit the
/// same place in both, and only then are the two runs comparable call by call.
fn same_inner_calls(a: &Shared, b: &Shared) -> bool {
    a.calls.len() == b.calls.len() && a.calls.iter().zip(&b.calls).all(|(x, y)| x.offered == y.offered)
}

/// Pass-through under faults, for an implementation that groups its inner writes differently from the bare writer: what
/// the inner writer holds is the concatenation, call by call, of exactly the bytes a successful call reported as
/// consumed, of some prefix of the bytes of a failed write_all / formatted write, and of nothing for a failed `write`.
fn passthrough_consistent(data: &[u8], ops: &[Op], results: &[Res], delivered: &[u8]) -> bool {
    fn go(data: &[u8], ops: &[Op], results: &[Res], delivered: &[u8], i: usize, pos: usize) -> bool {
        if i == ops.len() {
            return pos == delivered.len();
        }
        let rest = &delivered[pos..];
        let exact = |piece: &[u8]| rest.starts_with(piece) && go(data, ops, results, delivered, i + 1, pos + piece.len());
        match (&ops[i], &results[i]) {
            (Op::Write(a, b), Res::N(n)) | (Op::WriteVectored(a, _, b), Res::N(n)) => *a + *n <= *b && exact(&data[*a..*a + *n]),
            (Op::WriteAll(a, b), Res::Unit) | (Op::WriteFmt(a, b), Res::Unit) => exact(&data[*a..*b]),
            (Op::WriteAll(a, b), Res::Err(_)) | (Op::WriteFmt(a, b), Res::Err(_)) => {
                let piece = &data[*a..*b];
                (0..=piece.len()).rev().any(|k| rest.starts_with(&piece[..k]) && go(data, ops, results, delivered, i + 1, pos + k))
            }
            _ => go(data, ops, results, delivered, i + 1, pos),
        }
    }
    results.len() == ops.len() && go(data, ops, results, delivered, 0, 0)
}

pub fn check_boxed(data: &[u8], ops: &[Op], script: &[Step]) -> R {
    let (sh_plain, mut plain) = scripted(script);
    let r_plain = drive(&mut plain, data, ops);
    let (sh_strip, b) = scripted(script);
    let mut strip = StripStream::new(b);
    let r_strip = drive(&mut strip, data, ops);
    let (sh_never, b) = scripted(script);
    let mut never = AutoStream::never(b);
    let r_never = drive(&mut never, data, ops);
    // call-by-call comparison under faults needs both runs to meet the n-th fault at the same place; a never-colour
    // stream that groups its inner writes differently from StripStream is judged by C06's contract oracle instead
    if same_inner_calls(&sh_never.borrow(), &sh_strip.borrow()) {
        same("never-boxed", "never(Box<dyn Write>) under short writes / errors", &r_never, &r_strip, ops)?;
        same_bytes("never-boxed", "never(Box<dyn Write>)", &sh_never.borrow().delivered, &sh_strip.borrow().delivered)?;
    }
    choice_is("never-boxed", never.current_choice(), ColorChoice::Never)?;
    if sh_never.borrow().flushes != sh_strip.borrow().flushes {
        return Err(("c08:never-boxed:flush".into(), "flush is not forwarded like the strip stream does".into()));
    }
    for which in 0..2 {
        let (sh, b) = scripted(script);
        let mut s = if which == 0 { AutoStream::always_ansi(b) } else { AutoStream::new(b, ColorChoice::Always) };
        let r = drive(&mut s, data, ops);
        if same_inner_calls(&sh.borrow(), &sh_plain.borrow()) {
            same("always-boxed", "pass-through over Box<dyn Write> under short writes / errors", &r, &r_plain, ops)?;
            same_bytes("always-boxed", "pass-through over Box<dyn Write>", &sh.borrow().delivered, &sh_plain.borrow().delivered)?;
        } else if !passthrough_consistent(data, ops, &r, &sh.borrow().delivered) {
            return Err(("c08:always-boxed:bytes".into(), format!("pass-through over Box<dyn Write> under short writes / errors: the inner writer holds {:?}, which is not the bytes the calls reported as consumed (results {:?})", show(&sh.borrow().delivered[..sh.borrow().delivered.len().min(120)]), &r[..r.len().min(12)])));
        }
        if sh.borrow().flushes != sh_plain.borrow().flushes {
            return Err(("c08:always-boxed:flush".into(), "flush is not forwarded".into()));
        }
        choice_is("always-boxed", s.current_choice(), ColorChoice::AlwaysAnsi)?;
        if s.is_terminal() {
            return Err(("c08:always-boxed:is_terminal".into(), "a boxed writer reports to be a terminal".into()));
        }
        let _ = s.into_inner();
    }
    Ok(())
}

fn temp_file(tag: &str) -> std::io::Result<(std::path::PathBuf, std::fs::File)> {
    let dir = std::env::temp_dir();
    let path = dir.join(format!("vh-c08-{}-{:?}-{tag}.tmp", std::process::id(), std::thread::current().id()));
    let f = std::fs::OpenOptions::new().create(true).truncate(true).read(true).write(true).open(&path)?;
    Ok((path, f))
}

fn read_back(mut f: std::fs::File, path: &std::path::Path) -> Vec<u8> {
    let mut out = vec![];
    let _ = f.flush();
    let _ = f.seek(std::io::SeekFrom::Start(0));
    let _ = f.read_to_end(&mut out);
    drop(f);
    let _ = std::fs::remove_file(path);
    out
}

pub fn check_file(data: &[u8], ops: &[Op]) -> R {
    let mut strip = StripStream::new(Vec::new());
    let r_strip = drive(&mut strip, data, ops);
    let strip_bytes = strip.into_inner();
    let mut plain: Vec<u8> = vec![];
    let r_plain = drive(&mut plain, data, ops);
    let h = |e: std::io::Error| ("c08:harness".to_string(), e.to_string());
    let (p, f) = temp_file("n").map_err(h)?;
    let mut s = AutoStream::never(f);
    let r = drive(&mut s, data, ops);
    same("never-file", "never(File)", &r, &r_strip, ops)?;
    if s.is_terminal() {
        return Err(("c08:never-file:is_terminal".into(), "a regular file reports to be a terminal".into()));
    }
    same_bytes("never-file", "never(File)", &read_back(s.into_inner(), &p), &strip_bytes)?;
    let (p, f) = temp_file("a").map_err(h)?;
    let mut s = AutoStream::always(f);
    let r = drive(&mut s, data, ops);
    same("always-file", "always(File)", &r, &r_plain, ops)?;
    same_bytes("always-file", "always(File)", &read_back(s.into_inner(), &p), &plain)?;
    Ok(())
}

/// The (deprecated, still public) `anstream::Buffer` writer: pass-through must forward every byte unchanged and report
/// what the buffer really took, call by call (the buffer is inspected between calls through `AutoStream<&mut Buffer>`).
#[allow(deprecated)]
pub fn check_buffer(data: &[u8], ops: &[Op]) -> R {
    let mut b = anstream::Buffer::new();
    for (i, op) in ops.iter().enumerate() {
        let before = b.as_bytes().len();
        let r = {
            let mut s = AutoStream::always_ansi(&mut b);
            let r = drive(&mut s, data, std::slice::from_ref(op));
            choice_is("always-buffer", s.current_choice(), ColorChoice::AlwaysAnsi)?;
            r.into_iter().next().unwrap_or(Res::Unit)
        };
        let added = b.as_bytes()[before..].to_vec();
        let offered: &[u8] = match op {
            Op::Write(a, z) | Op::WriteAll(a, z) | Op::WriteFmt(a, z) | Op::WriteVectored(a, _, z) => &data[*a..*z],
            Op::Flush => &[],
        };
        match (op, &r) {
            (Op::Write(..), Res::N(n)) | (Op::WriteVectored(..), Res::N(n)) => {
                if *n != added.len() || *n > offered.len() || added != offered[..*n] {
                    return Err(("c08:always-buffer:count".into(), format!("call {i} {op:?} on a Buffer holding {before} bytes returned {n}; the buffer grew by {} bytes {:?}, offered {:?}", added.len(), show(&added[..added.len().min(40)]), show(&offered[..offered.len().min(40)]))));
                }
            }
            (Op::WriteAll(..), Res::Unit) | (Op::WriteFmt(..), Res::Unit) => {
                if added != offered {
                    return Err(("c08:always-buffer:bytes".into(), format!("call {i} {op:?}: the buffer grew by {:?}, offered {:?}", show(&added[..added.len().min(40)]), show(&offered[..offered.len().min(40)]))));
                }
            }
            (Op::Flush, Res::Unit) => {}
            (op, r) => return Err(("c08:always-buffer:result".into(), format!("call {i} {op:?} returned {r:?}"))),
        }
    }
    // stripping mode over a Buffer == strip stream over a Buffer
    let mut strip = StripStream::new(anstream::Buffer::new());
    let r_strip = drive(&mut strip, data, ops);
    let mut never = AutoStream::never(anstream::Buffer::new());
    let r_never = drive(&mut never, data, ops);
    same("never-buffer", "never(Buffer)", &r_never, &r_strip, ops)?;
    same_bytes("never-buffer", "never(Buffer)", never.into_inner().as_bytes(), strip.into_inner().as_bytes())?;
    Ok(())
}

/// `Box<dyn Write + Send>` and `&mut dyn Write` are stream kinds with their own trait impls
pub fn check_dyn_kinds(data: &[u8], ops: &[Op]) -> R {
    let mut plain: Vec<u8> = vec![];
    let r_plain = drive(&mut plain, data, ops);
    let mut strip = StripStream::new(Vec::new());
    let r_strip = drive(&mut strip, data, ops);
    let strip_bytes = strip.into_inner();
    // &mut dyn Write
    let mut v: Vec<u8> = vec![];
    {
        let w: &mut dyn Write = &mut v;
        let mut s = AutoStream::never(w);
        let r = drive(&mut s, data, ops);
        same("never-dynref", "never(&mut dyn Write)", &r, &r_strip, ops)?;
        choice_is("never-dynref", s.current_choice(), ColorChoice::Never)?;
        if s.is_terminal() {
            return Err(("c08:never-dynref:is_terminal".into(), "&mut dyn Write reports to be a terminal".into()));
        }
    }
    same_bytes("never-dynref", "never(&mut dyn Write)", &v, &strip_bytes)?;
    let mut v: Vec<u8> = vec![];
    {
        let w: &mut dyn Write = &mut v;
        let mut s = AutoStream::new(w, ColorChoice::Always);
        let r = drive(&mut s, data, ops);
        // a dyn Write forwards write_vectored through the default method (first non-empty slice), so only compare bytes
        let _ = r;
        choice_is("always-dynref", s.current_choice(), ColorChoice::AlwaysAnsi)?;
    }
    let _ = r_plain;
    // Box<dyn Write + Send>
    let shared = std::sync::Arc::new(std::sync::Mutex::new(Vec::<u8>::new()));
    struct SendSink(std::sync::Arc<std::sync::Mutex<Vec<u8>>>);
    impl Write for SendSink {
        fn write(&mut self, buf: &[u8]) -> std::io::Result<usize> {
            self.0.lock().unwrap().extend_from_slice(buf);
            Ok(buf.len())
        }
        fn flush(&mut self) -> std::io::Result<()> {
            Ok(())
        }
    }
    let b: Box<dyn Write + Send> = Box::new(SendSink(shared.clone()));
    let mut s = AutoStream::never(b);
    let r = drive(&mut s, data, ops);
    same("never-boxsend", "never(Box<dyn Write + Send>)", &r, &r_strip, ops)?;
    choice_is("never-boxsend", s.current_choice(), ColorChoice::Never)?;
    drop(s);
    same_bytes("never-boxsend", "never(Box<dyn Write + Send>)", &shared.lock().unwrap(), &strip_bytes)?;
    Ok(())
}

fn make_case(seed: u64, i: u64) -> Case {
    Case::new("c08").n(seed as i64).n(i as i64)
}

struct Gen {
    data: Vec<u8>,
    ops: Vec<Op>,
    script: Vec<Step>,
    kind: u64,
}

fn generate(seed: u64, i: u64, maxlen: usize) -> Gen {
    let mut rng = Rng::new(seed, 0xC08_0000_0000 + i);
    let data = match rng.below(3) {
        0 => gen::gen_stream(&mut rng, maxlen, true),
        1 => gen::gen_stream(&mut rng, maxlen, false),
        _ => gen::gen_sgr_text(&mut rng, gen::SgrOpts::default(), 30, &[]),
    };
    let mut ops = gen_ops(&mut rng, &data);
    let mut data = data;
    if i % 7 == 3 {
        // a byte write that ends inside a multi-byte character which is never completed, followed by a formatted write
        let tail = *rng.pick(&[": not found\n", "\x1b[1mbold\x1b[0m \u{e9}\n", "x"]);
        let lead = *rng.pick(&[&b"\xc3"[..], b"\xe2\x82", b"\xf0\x9f", b"\xe2"]);
        let a = data.len();
        data.extend_from_slice(b"caf");
        data.extend_from_slice(lead);
        let m = data.len();
        data.extend_from_slice(tail.as_bytes());
        ops.push(if rng.chance(1, 2) { Op::WriteAll(a, m) } else { Op::Write(a, m) });
        ops.push(Op::WriteFmt(m, data.len()));
        ops.push(Op::WriteAll(a, a + 3));
    }
    if i % 7 == 5 {
        // a literal formatted write that continues what an earlier call began
        let (pre, k, post) = crate::c06::LITERAL_CONTINUATIONS[rng.below(crate::c06::LITERAL_CONTINUATIONS.len() as u64) as usize];
        let a = data.len();
        data.extend_from_slice(pre.as_bytes());
        let m = data.len();
        data.extend_from_slice(crate::c06::LITERALS[k].as_bytes());
        let z = data.len();
        data.extend_from_slice(post.as_bytes());
        ops.push(if rng.chance(1, 2) { Op::WriteAll(a, m) } else { Op::Write(a, m) });
        ops.push(Op::WriteFmt(m, z));
        ops.push(Op::WriteAll(z, data.len()));
    }
    let script: Vec<Step> = (0..rng.below(20))
        .map(|_| match rng.below(10) {
            0 => Step::Accept(0),
            1 => Step::Accept(1),
            2 => Step::Accept(2),
            3 => Step::Accept(3),
            4 => Step::Interrupted,
            5 => Step::WouldBlock,
            6 => Step::Other,
            _ => Step::All,
        })
        .collect();
    Gen { data, ops, script, kind: i % 50 }
}

/// a value whose Display hands over its text and then reports an error
struct FailAfter<'a>(&'a str);
impl std::fmt::Display for FailAfter<'_> {
    fn fmt(&self, f: &mut std::fmt::Formatter<'_>) -> std::fmt::Result {
        f.write_str(self.0)?;
        Err(std::fmt::Error)
    }
}

/// Formatted writes with unusual values, on writers that never fail: (1) in never-colour mode a value whose Display fails
/// after emitting text - the stream delivers what the strip stream delivers and reports like it; (2) a small, a large
/// (around 1 / 4 / 8 / 64 KiB) and a small fragment in one call - in every mode the bytes arrive in order.
pub fn check_special_values(data: &[u8], kind: u64) -> R {
    let text = String::from_utf8_lossy(&data[..data.len().min(300)]).into_owned();
    let m = char_floor(&text, text.len() / 2);
    let (a, b) = text.split_at(m);
    // (1)
    let mut strip = StripStream::new(Vec::new());
    let r_strip = write!(strip, "<{}{}|", Frag(a), FailAfter(b)).is_ok();
    let r_strip2 = write!(strip, "tail").is_ok();
    let want = strip.into_inner();
    for (name, mut s) in [("new(Never)", AutoStream::new(Vec::new(), ColorChoice::Never)), ("never()", AutoStream::never(Vec::new()))] {
        let r = write!(s, "<{}{}|", Frag(a), FailAfter(b)).is_ok();
        let r2 = write!(s, "tail").is_ok();
        if (r, r2) != (r_strip, r_strip2) {
            return Err(("c08:never:results".into(), format!("{name}: a formatted write with a value whose Display fails returned ok={r} (next call ok={r2}); the strip stream: ok={r_strip} / ok={r_strip2}")));
        }
        same_bytes("never", &format!("{name} after a value whose Display fails"), &s.into_inner(), &want)?;
    }
    // (1b) single characters as arguments and as fill (the formatter hands them over through write_char), of every
    // UTF-8 length, in every mode
    {
        let chars: [char; 6] = ['x', '\u{b0}', '\u{e9}', '\u{ff}', '\u{20ac}', '\u{1f600}'];
        let c = chars[(kind % 6) as usize];
        let d = chars[((kind + 1) % 6) as usize];
        let mut plain: Vec<u8> = vec![];
        let _ = write!(plain, "{c}{a}{d:?}{:\u{b7}>6}|{:\u{e9}<5}|{d}", "ab", 7);
        let mut strip = StripStream::new(Vec::new());
        let _ = write!(strip, "{c}{a}{d:?}{:\u{b7}>6}|{:\u{e9}<5}|{d}", "ab", 7);
        let stripped = strip.into_inner();
        for (name, mut s, want) in [
            ("always_ansi()", AutoStream::always_ansi(Vec::new()), &plain),
            ("new(Always)", AutoStream::new(Vec::new(), ColorChoice::Always), &plain),
            ("never()", AutoStream::never(Vec::new()), &stripped),
        ] {
            let r = write!(s, "{c}{a}{d:?}{:\u{b7}>6}|{:\u{e9}<5}|{d}", "ab", 7);
            let got = s.into_inner();
            if r.is_err() || &got != want {
                return Err(("c08:char-arguments:bytes".into(), format!("{name}: a formatted write with character arguments and fill characters ({c:?}, {d:?}) delivered {:?}, expected {:?}", show(&got[..got.len().min(80)]), show(&want[..want.len().min(80)]))));
            }
        }
    }
    // (2)
    let size = [1023usize, 1024, 1025, 4095, 4096, 4097, 8191, 8192, 8193, 65536][(kind % 10) as usize];
    let body: String = text.chars().filter(|c| !c.is_control()).cycle().take(size.max(1)).collect::<String>();
    let body = if body.is_empty() { "z".repeat(size) } else { body };
    let mut plain: Vec<u8> = vec![];
    let _ = write!(plain, "[{a}]{body}{b}\n{a}");
    let mut strip = StripStream::new(Vec::new());
    let _ = write!(strip, "[{a}]{body}{b}\n{a}");
    let stripped = strip.into_inner();
    for (name, mut s, want) in [
        ("always_ansi()", AutoStream::always_ansi(Vec::new()), &plain),
        ("new(Always)", AutoStream::new(Vec::new(), ColorChoice::Always), &plain),
        ("never()", AutoStream::never(Vec::new()), &stripped),
    ] {
        if write!(s, "[{a}]{body}{b}\n{a}").is_err() {
            return Err(("c08:large-fragment:results".into(), format!("{name}: a formatted write with a {size}-byte fragment into a Vec failed")));
        }
        let got = s.into_inner();
        if &got != want {
            let i = got.iter().zip(want.iter()).position(|(x, y)| x != y).unwrap_or(got.len().min(want.len()));
            return Err(("c08:large-fragment:bytes".into(), format!("{name}: a formatted write with a small, a {size}-byte and a small fragment delivered {} bytes, expected {}; first difference at byte {i}: {:?} / {:?}", got.len(), want.len(), show(&got[i..got.len().min(i + 40)]), show(&want[i..want.len().min(i + 40)]))));
        }
    }
    Ok(())
}

fn run_case(g: &Gen, auto_too: bool) -> R {
    check_vec(&g.data, &g.ops, auto_too)?;
    if g.kind % 5 == 2 {
        check_special_values(&g.data, g.kind / 5)?;
    }
    check_boxed(&g.data, &g.ops, &g.script)?;
    check_buffer(&g.data, &g.ops)?;
    check_dyn_kinds(&g.data, &g.ops)?;
    if g.kind == 0 {
        check_file(&g.data, &g.ops)?;
    }
    Ok(())
}

pub fn run(cfg: &Cfg) -> Stats {
    let (n_cases, maxlen) = match cfg.tier {
        Tier::Tiny => (30u64, 200usize),
        Tier::Quick => (20_000, 2048),
        Tier::Thorough => (1_000_000, 4096),
    };
    let clean = env_is_clean();
    let mut st = par(cfg, |shard, n| {
        let mut st = Stats::new();
        let mut i = shard;
        while i < n_cases {
            let g = generate(cfg.seed, i, maxlen);
            st.eval();
            let mut key = g.data.clone();
            key.extend_from_slice(format!("{:?}{:?}", g.ops, g.script).as_bytes());
            if g.data.contains(&0x1b) {
                st.nontrivial_hash(hash64(&key));
            }
            st.add("operations_applied_per_stream", g.ops.len() as u64);
            st.add("streams_driven_in_lockstep", 12 + 5 + 6 + if g.kind == 0 { 2 } else { 0 });
            for op in &g.ops {
                st.count(match op {
                    Op::Write(..) => "op_write",
                    Op::WriteAll(..) => "op_write_all",
                    Op::WriteVectored(..) => "op_write_vectored",
                    Op::WriteFmt(..) => "op_write_fmt",
                    Op::Flush => "op_flush",
                });
            }
            if i < 3 {
                st.sample(5, || {
                    let mut o = J::obj();
                    o.set("input", J::s(show(&g.data[..g.data.len().min(100)])));
                    o.set("len", J::UInt(g.data.len() as u64));
                    o.set("ops", J::s(format!("{:?}", &g.ops[..g.ops.len().min(8)])));
                    o.set("boxed_writer_script", J::s(format!("{:?}", g.script)));
                    o
                });
            }
            match crate::guarded(|| run_case(&g, clean)) {
                Ok(Ok(())) => {}
                Ok(Err((sig, msg))) => st.viol(&sig, format!("{:?}: {msg}", show(&g.data[..g.data.len().min(60)])), make_case(cfg.seed, i).n(maxlen as i64)),
                Err(p) => st.viol("c08:panic", format!("panicked: {p}"), make_case(cfg.seed, i).n(maxlen as i64)),
            }
            i += n;
        }
        st
    });
    if !clean {
        st.notes.push("NO_COLOR / CLICOLOR / CLICOLOR_FORCE or a global choice is set in this process: the Auto == Never comparison was skipped".into());
    } else {
        st.count("auto_mode_compared_with_never");
    }
    st
}

pub fn replay(case: &Case) -> Result<String, Viol> {
    let seed = case.nums.first().copied().unwrap_or(1) as u64;
    let i = case.nums.get(1).copied().unwrap_or(0) as u64;
    let maxlen = case.nums.get(2).copied().unwrap_or(2048) as usize;
    let g = generate(seed, i, maxlen);
    let clean = env_is_clean();
    match crate::guarded(|| run_case(&g, clean)) {
        Ok(Ok(())) => Ok("all AutoStream modes behave like their reference stream".into()),
        Ok(Err((sig, msg))) => Err(Viol { case: case.clone(), msg, sig }),
        Err(p) => Err(Viol { case: case.clone(), msg: format!("panicked: {p}"), sig: "c08:panic".into() }),
    }
}
