//! C01 — stripping removes exactly the escape sequences and nothing else.
use crate::{par, Case, Cfg, Stats, Tier, Viol};
use refmodel::gen;
use refmodel::json::{show, J};
use refmodel::rng::{hash64, Rng};
use refmodel::vt::{self, Policy, RefVt, N_SLOTS};
use std::io::Write;

fn in_range(outer: &[u8], inner: &[u8]) -> bool {
    let o = outer.as_ptr() as usize;
    let i = inner.as_ptr() as usize;
    i >= o && i + inner.len() <= o + outer.len()
}

/// Structural rule for one entry point: pieces inside the input, increasing, non-overlapping, non-empty.
fn pieces_ok(input: &[u8], pieces: &[&[u8]]) -> Result<(), String> {
    let mut prev_end = input.as_ptr() as usize;
    for (i, p) in pieces.iter().enumerate() {
        if p.is_empty() {
            return Err(format!("piece {i} is empty"));
        }
        if !in_range(input, p) {
            return Err(format!("piece {i} lies outside the input buffer"));
        }
        let s = p.as_ptr() as usize;
        if s < prev_end {
            return Err(format!("piece {i} overlaps or precedes the previous piece"));
        }
        prev_end = s + p.len();
    }
    Ok(())
}

fn forbidden_byte(out: &[u8]) -> Option<(usize, u8)> {
    out.iter().copied().enumerate().find(|(_, b)| (*b < 0x20 && !vt::is_ws_control(*b)) || *b == 0x7f)
}

pub struct Expect {
    pub visible: Vec<u8>,
    pub visible_alt_ascii: Vec<u8>,
}

/// Reference visible text + coverage of the parser state in which printable bytes arrive.
pub fn expect_for(data: &[u8], st: Option<&mut Stats>) -> Expect {
    let mut r = RefVt::new(Policy::Reprocess);
    let mut out = Vec::with_capacity(data.len());
    let mut slots = [0u64; N_SLOTS];
    let mut ws_in_seq = false;
    for &b in data {
        let slot = r.slot();
        if (0x20..0x7f).contains(&b) || vt::is_ws_control(b) {
            slots[slot] += 1;
            if vt::is_ws_control(b) && slot != 0 && slot != vt::SLOT_MIDCHAR {
                ws_in_seq = true;
            }
        }
        r.step(b);
        if !r.ev.is_empty() {
            vt::visible_of_events(&r.ev, &mut out);
            r.ev.clear();
        }
    }
    if let Some(st) = st {
        for (i, n) in slots.iter().enumerate() {
            if *n > 0 {
                st.arr_add("printable_or_ws_byte_arrival_by_state", i, N_SLOTS, *n);
            }
        }
        if ws_in_seq {
            st.count("inputs_with_whitespace_control_inside_sequence");
        }
    }
    Expect { visible: out, visible_alt_ascii: vec![] }
}

/// true when `s` is one of the strings the CHARS27 enumeration up to `lc` characters produces
pub fn in_chars27_enum(s: &[u8], lc: u32) -> bool {
    match std::str::from_utf8(s) {
        Ok(t) => {
            let mut buf = [0u8; 4];
            t.chars().count() <= lc as usize && t.chars().all(|c| gen::CHARS27.contains(&&*c.encode_utf8(&mut buf)))
        }
        Err(_) => false,
    }
}

/// `bytes` decoded leniently with every replacement character removed: the well-formed characters it contains
fn wellformed_chars(bytes: &[u8]) -> String {
    String::from_utf8_lossy(bytes).chars().filter(|c| *c != '\u{fffd}').collect()
}

/// Input that is not valid UTF-8: the statement fixes the structure of the output; beyond that the check demands that
/// the ASCII text and every *well-formed* character of the visible text survive, under either decoder policy for the
/// byte that follows a truncated character (re-processed / swallowed) — DESIGN 8.1.
fn compare_invalid(name: &str, data: &[u8], out: &[u8], visible_reprocess: &[u8]) -> Result<(), (String, String)> {
    let got_ascii = vt::ascii_only(out);
    let got_chars = wellformed_chars(out);
    let want_ascii = vt::ascii_only(visible_reprocess);
    let want_chars = wellformed_chars(visible_reprocess);
    if got_ascii == want_ascii && got_chars == want_chars {
        return Ok(());
    }
    let alt = vt::visible(data, Policy::Consume);
    if got_ascii == vt::ascii_only(&alt) && got_chars == wellformed_chars(&alt) {
        return Ok(());
    }
    let hyb = vt::visible(data, Policy::Hybrid);
    if got_ascii == vt::ascii_only(&hyb) && got_chars == wellformed_chars(&hyb) {
        return Ok(());
    }
    if got_ascii != want_ascii {
        return Err((
            format!("c01:{name}:ascii-visible-text"),
            format!("ASCII projection observed {:?}, expected {:?} (or {:?} under the swallow policy)", show(&got_ascii), show(&want_ascii), show(&vt::ascii_only(&alt))),
        ));
    }
    Err((
        format!("c01:{name}:wellformed-characters"),
        format!(
            "well-formed characters observed {:?}, expected {:?} (re-process policy), {:?} (swallow policy) or {:?} (hybrid); output {:?}",
            show(got_chars.as_bytes()),
            show(want_chars.as_bytes()),
            show(wellformed_chars(&alt).as_bytes()),
            show(wellformed_chars(&hyb).as_bytes()),
            show(out)
        ),
    ))
}

fn is_nontrivial(data: &[u8]) -> bool {
    data.iter().any(|b| *b < 0x20 || *b >= 0x7f)
}

/// Evaluate every strip entry point on one input.  Returns Err((sig,msg)) on the first violated rule.
pub fn check_input(data: &[u8], st: &mut Stats) -> Result<(), (String, String)> {
    let exp = expect_for(data, Some(st));
    let valid = std::str::from_utf8(data).ok();

    // ---- byte entry points
    let pieces: Vec<&[u8]> = anstream::adapter::strip_bytes(data).collect();
    pieces_ok(data, &pieces).map_err(|e| ("c01:strip_bytes:pieces".to_string(), e))?;
    let out_bytes: Vec<u8> = pieces.concat();
    let into_vec = anstream::adapter::strip_bytes(data).into_vec();
    if into_vec != out_bytes {
        return Err(("c01:strip_bytes:into_vec".into(), format!("into_vec {:?} != iterator {:?}", show(&into_vec), show(&out_bytes))));
    }
    let mut sb = anstream::adapter::StripBytes::new();
    let inc: Vec<&[u8]> = sb.strip_next(data).collect();
    pieces_ok(data, &inc).map_err(|e| ("c01:StripBytes:pieces".to_string(), e))?;
    let out_inc = inc.concat();
    let mut stream = anstream::StripStream::new(Vec::new());
    stream.write_all(data).map_err(|e| ("c01:StripStream:error".to_string(), format!("write_all to Vec failed: {e}")))?;
    let out_stream = stream.into_inner();
    let mut auto = anstream::AutoStream::never(Vec::new());
    auto.write_all(data).map_err(|e| ("c01:AutoStream::never:error".to_string(), format!("write_all to Vec failed: {e}")))?;
    let out_auto = auto.into_inner();

    let outs: [(&str, &Vec<u8>); 4] = [("strip_bytes", &out_bytes), ("StripBytes", &out_inc), ("StripStream", &out_stream), ("AutoStream::never", &out_auto)];
    for (name, out) in outs.iter() {
        if let Some((i, b)) = forbidden_byte(out) {
            return Err((format!("c01:{name}:control-byte-in-output"), format!("output byte {i} is {b:#04x}: {}", show(out))));
        }
    }
    match valid {
        Some(_) => {
            for (name, out) in outs.iter() {
                if **out != exp.visible {
                    return Err((format!("c01:{name}:visible-text"), format!("observed {:?}, expected {:?}", show(out), show(&exp.visible))));
                }
            }
        }
        None => {
            st.count("inputs_not_valid_utf8");
            for (name, out) in outs.iter() {
                compare_invalid(name, data, out, &exp.visible)?;
                if **out != out_bytes {
                    return Err((format!("c01:{name}:entry-points-disagree"), format!("{:?} vs strip_bytes {:?}", show(out), show(&out_bytes))));
                }
            }
        }
    }

    // ---- the incremental adapters fed in pieces: unit by unit, and under a partition derived from the input
    if data.len() >= 2 {
        let mut rng = Rng::new(hash64(data), 0xC01);
        let plans: [(&str, Vec<usize>); 2] = [("unit-by-unit", (1..data.len()).collect()), ("pseudo-random partition", gen::chunk_cuts(&mut rng, data.len(), gen::Chunker::Random(4)))];
        for (plan, cuts) in plans.iter() {
            let chunks = gen::split_at_cuts(data, cuts);
            let mut sb = anstream::adapter::StripBytes::new();
            let mut out = Vec::with_capacity(data.len());
            for c in &chunks {
                let ps: Vec<&[u8]> = sb.strip_next(c).collect();
                pieces_ok(c, &ps).map_err(|e| ("c01:StripBytes(chunked):pieces".to_string(), e))?;
                for p in ps {
                    out.extend_from_slice(p);
                }
            }
            let mut stream = anstream::StripStream::new(Vec::new());
            for c in &chunks {
                stream.write_all(c).map_err(|e| ("c01:StripStream(chunked):error".to_string(), e.to_string()))?;
            }
            let out2 = stream.into_inner();
            for (name, o) in [("StripBytes(chunked)", &out), ("StripStream(chunked)", &out2)] {
                if let Some((i, b)) = forbidden_byte(o) {
                    return Err((format!("c01:{name}:control-byte-in-output"), format!("[{plan}] output byte {i} is {b:#04x}: {}", show(o))));
                }
                match valid {
                    Some(_) => {
                        if *o != exp.visible {
                            return Err((format!("c01:{name}:visible-text"), format!("[{plan}, cuts {:?}] observed {:?}, expected {:?}", &cuts[..cuts.len().min(12)], show(o), show(&exp.visible))));
                        }
                    }
                    None => compare_invalid(name, data, o, &exp.visible).map_err(|(s, m)| (s, format!("[{plan}, cuts {:?}] {m}", &cuts[..cuts.len().min(12)])))?,
                }
            }
            if let Some(s) = valid {
                let ccuts = gen::cuts_to_char_boundaries(s, cuts);
                let mut ss = anstream::adapter::StripStr::new();
                let mut o = String::new();
                let mut prev = 0;
                for &c in ccuts.iter().chain(std::iter::once(&s.len())) {
                    for p in ss.strip_next(&s[prev..c]) {
                        o.push_str(p);
                    }
                    prev = c;
                }
                if o.as_bytes() != &exp.visible[..] {
                    return Err(("c01:StripStr(chunked):visible-text".into(), format!("[{plan}, cuts {:?}] observed {:?}, expected {:?}", &ccuts[..ccuts.len().min(12)], show(o.as_bytes()), show(&exp.visible))));
                }
            }
        }
        st.count("inputs_also_run_chunked");
    }

    // ---- text entry points
    if let Some(s) = valid {
        let pieces: Vec<&str> = anstream::adapter::strip_str(s).collect();
        let raw: Vec<&[u8]> = pieces.iter().map(|p| p.as_bytes()).collect();
        pieces_ok(data, &raw).map_err(|e| ("c01:strip_str:pieces".to_string(), e))?;
        for p in &raw {
            if std::str::from_utf8(p).is_err() {
                return Err(("c01:strip_str:invalid-utf8-piece".into(), format!("piece {:?} is not valid UTF-8", show(p))));
            }
        }
        let out_str = raw.concat();
        if out_str != exp.visible {
            return Err(("c01:strip_str:visible-text".into(), format!("observed {:?}, expected {:?}", show(&out_str), show(&exp.visible))));
        }
        let disp = anstream::adapter::strip_str(s).to_string();
        if disp.as_bytes() != out_str {
            return Err(("c01:strip_str:to_string".into(), format!("to_string {:?} != iterator {:?}", show(disp.as_bytes()), show(&out_str))));
        }
        let disp2 = format!("{}", anstream::adapter::strip_str(s));
        if disp2.as_bytes() != out_str {
            return Err(("c01:strip_str:display".into(), format!("Display {:?} != iterator {:?}", show(disp2.as_bytes()), show(&out_str))));
        }
        crate::c03::partly_consumed(data, &out_bytes, Some(&out_str), "c01")?;
        let mut ss = anstream::adapter::StripStr::new();
        let inc: Vec<&str> = ss.strip_next(s).collect();
        let raw: Vec<&[u8]> = inc.iter().map(|p| p.as_bytes()).collect();
        pieces_ok(data, &raw).map_err(|e| ("c01:StripStr:pieces".to_string(), e))?;
        for p in &raw {
            if std::str::from_utf8(p).is_err() {
                return Err(("c01:StripStr:invalid-utf8-piece".into(), format!("piece {:?} is not valid UTF-8", show(p))));
            }
        }
        let out_inc = raw.concat();
        if out_inc != exp.visible {
            return Err(("c01:StripStr:visible-text".into(), format!("observed {:?}, expected {:?}", show(&out_inc), show(&exp.visible))));
        }
    }
    Ok(())
}

#[derive(Clone, Copy, PartialEq)]
pub enum Distinct {
    /// distinct by construction (an exhaustive enumeration never repeats a string)
    Enumerated,
    /// counted through a hash set
    Hashed,
    /// known duplicate of another enumeration: evaluated but not counted
    Skip,
}

/// Fragments written as `write!(stream, "<literal>")` (no run-time arguments, so `Arguments::as_str()` is `Some`): pieces of
/// sequences, finals, text.  A never-colour stream must carry its parser state across such calls like across any other.
pub const LIT_FRAGMENTS: [&str; 30] = ["\x1b[", "\x1b", "1", ";", "31", "38;5;1", "m", "bold", "\x1b[0m", "\x1b]0;", "title", "\x07", "\x1b\\", "\x1bP1$q", " text
", "\u{e9}", "\u{1f600}", "[", "]", "\x1b[1mred\x1b[0m", "0", "\t", "\x1b(", "B", "\x18", "?25h", "\x1b[38:2:1:2", ":3m", "\u{6f22}", "x"];

/// characters cut short, only ever written with `write_all` (indices LIT_FRAGMENTS.len()..): the formatted write that
/// follows finds the stream in the middle of a character
pub const CUT_FRAGMENTS: [&[u8]; 3] = [b"\xf0\x9f", b"\xe6\xbc", b"\xc3"];

fn fragment(k: usize) -> &'static [u8] {
    if k < LIT_FRAGMENTS.len() {
        LIT_FRAGMENTS[k].as_bytes()
    } else {
        CUT_FRAGMENTS[(k - LIT_FRAGMENTS.len()) % CUT_FRAGMENTS.len()]
    }
}

fn write_lit_fragment(w: &mut dyn Write, k: usize) -> std::io::Result<()> {
    match k {
        0 => write!(w, "\x1b["),
        1 => write!(w, "\x1b"),
        2 => write!(w, "1"),
        3 => write!(w, ";"),
        4 => write!(w, "31"),
        5 => write!(w, "38;5;1"),
        6 => write!(w, "m"),
        7 => write!(w, "bold"),
        8 => write!(w, "\x1b[0m"),
        9 => write!(w, "\x1b]0;"),
        10 => write!(w, "title"),
        11 => write!(w, "\x07"),
        12 => write!(w, "\x1b\\"),
        13 => write!(w, "\x1bP1$q"),
        14 => write!(w, " text
"),
        15 => write!(w, "\u{e9}"),
        16 => write!(w, "\u{1f600}"),
        17 => write!(w, "["),
        18 => write!(w, "]"),
        19 => write!(w, "\x1b[1mred\x1b[0m"),
        20 => write!(w, "0"),
        21 => write!(w, "\t"),
        22 => write!(w, "\x1b("),
        23 => write!(w, "B"),
        24 => write!(w, "\x18"),
        25 => write!(w, "?25h"),
        26 => write!(w, "\x1b[38:2:1:2"),
        27 => write!(w, ":3m"),
        28 => write!(w, "\u{6f22}"),
        _ => write!(w, "x"),
    }
}

/// steps: (fragment index, how it is written: 0 literal `write!`, 1 `write_all`, 2 `write!("{}")`)
pub fn check_literal_script(steps: &[(usize, u8)]) -> Result<(), (String, String)> {
    let mut data = Vec::new();
    for (k, _) in steps {
        data.extend_from_slice(fragment(*k));
    }
    let exp = expect_for(&data, None);
    let valid = std::str::from_utf8(&data).is_ok();
    let mut strip = anstream::StripStream::new(Vec::new());
    let mut auto = anstream::AutoStream::never(Vec::new());
    for (k, how) in steps {
        for (name, w) in [("StripStream", &mut strip as &mut dyn Write), ("AutoStream::never", &mut auto as &mut dyn Write)] {
            let r = match how {
                _ if *k >= LIT_FRAGMENTS.len() => w.write_all(fragment(*k)),
                0 => write_lit_fragment(w, *k),
                1 => w.write_all(fragment(*k)),
                _ => write!(w, "{}", LIT_FRAGMENTS[*k]),
            };
            r.map_err(|e| (format!("c01:{name}(literal-fragments):error"), format!("write to Vec failed: {e}")))?;
        }
    }
    let describe = || steps.iter().map(|(k, h)| format!("{}{:?}", if *k >= LIT_FRAGMENTS.len() { "write_all " } else { ["write!(lit) ", "write_all ", "write!({}) "][*h as usize] }, show(fragment(*k)))).collect::<Vec<_>>().join(", ");
    for (name, out) in [("StripStream", strip.into_inner()), ("AutoStream::never", auto.into_inner())] {
        if !valid {
            compare_invalid(&format!("{name}(literal-fragments)"), &data, &out, &exp.visible).map_err(|(s, m)| (s, format!("[{}] {m}", describe())))?;
            continue;
        }
        if out != exp.visible {
            return Err((format!("c01:{name}(literal-fragments):visible-text"), format!("[{}] observed {:?}, expected {:?}", describe(), show(&out), show(&exp.visible))));
        }
    }
    Ok(())
}

fn eval_literal_script(steps: &[(usize, u8)], st: &mut Stats) {
    st.eval();
    st.count("literal_fragment_scripts");
    let mut case = Case::new("c01-lit");
    for (k, h) in steps {
        case = case.n(*k as i64).n(*h as i64);
    }
    match crate::guarded(|| check_literal_script(steps)) {
        Ok(Ok(())) => {}
        Ok(Err((sig, msg))) => st.viol(&sig, msg, case),
        Err(p) => st.viol("c01:panic", format!("[literal fragments] panicked: {p}"), case),
    }
}

fn eval(data: &[u8], st: &mut Stats, distinct: Distinct, origin: &str) {
    if origin == "whitespace-then-run-inside-sequence" && crate::tiny_skip(8) {
        return;
    }
    st.eval();
    if is_nontrivial(data) {
        match distinct {
            Distinct::Enumerated => st.nontrivial_enum(),
            Distinct::Hashed => st.nontrivial_hash(hash64(data)),
            Distinct::Skip => {}
        }
    }
    let r = crate::guarded(|| check_input(data, st));
    match r {
        Ok(Ok(())) => {}
        Ok(Err((sig, msg))) => st.viol(&sig, format!("[{origin}] {msg}"), Case::new("c01").b(data)),
        Err(p) => st.viol("c01:panic", format!("[{origin}] panicked: {p}"), Case::new("c01").b(data)),
    }
}

pub fn run(cfg: &Cfg) -> Stats {
    let (lc, lb, lb20, nstreams, maxlen, long_thr) = match cfg.tier {
        Tier::Tiny => (2u32, 2u32, 2u32, 40u64, 300usize, 256usize),
        Tier::Quick => (4, 3, 4, 20_000, 4096, 16384),
        Tier::Thorough => (5, 4, 6, 2_000_000, 8192, 65536),
    };
    let mut st = par(cfg, |shard, n| {
        let mut st = Stats::new();
        // scripts of literal-only formatted writes mixed with the other call kinds: all pairs and triples of fragments
        // written as literals, and pseudo-random scripts of 2..=8 steps
        {
            let nf = LIT_FRAGMENTS.len();
            let mut k = 0u64;
            for a in 0..nf {
                for b in 0..nf {
                    k += 1;
                    if k % n != shard {
                        continue;
                    }
                    eval_literal_script(&[(a, 0), (b, 0)], &mut st);
                    eval_literal_script(&[(a, 1), (b, 0), (19, 1)], &mut st);
                    eval_literal_script(&[(a, 0), (b, 2), (6, 0), (7, 1)], &mut st);
                }
            }
            // a byte write that ends inside a character, then a formatted write (literal or with an argument), then text
            for c in 0..CUT_FRAGMENTS.len() {
                for b in 0..nf {
                    k += 1;
                    if k % n != shard {
                        continue;
                    }
                    for how in [0u8, 2] {
                        eval_literal_script(&[(7, 1), (nf + c, 1), (b, how), (14, 1)], &mut st);
                        eval_literal_script(&[(nf + c, 1), (b, how), (b, how)], &mut st);
                    }
                }
            }
            let nscripts: u64 = match cfg.tier {
                Tier::Tiny => 50,
                Tier::Quick => 20_000,
                Tier::Thorough => 1_000_000,
            };
            let mut i = shard;
            while i < nscripts {
                let mut rng = Rng::new(cfg.seed, 0xC01_1170_0000 + i);
                let len = rng.range(2, 8) as usize;
                let steps: Vec<(usize, u8)> = (0..len).map(|_| (rng.below((nf + CUT_FRAGMENTS.len()) as u64) as usize, [0u8, 0, 0, 1, 2][rng.below(5) as usize])).collect();
                eval_literal_script(&steps, &mut st);
                i += n;
            }
        }
        let cu = gen::char_units(&gen::CHARS27);
        gen::for_each_string(&cu, lc, shard, n, |s, _| eval(s, &mut st, Distinct::Enumerated, "chars27"));
        let bu = gen::byte_units(&gen::BYTES40);
        // strings made only of ASCII units also occur in the CHARS27 enumeration when short enough
        gen::for_each_string(&bu, lb, shard, n, |s, _| {
            let dup = in_chars27_enum(s, lc);
            eval(s, &mut st, if dup { Distinct::Skip } else { Distinct::Enumerated }, "bytes40")
        });
        let bu20 = gen::byte_units(&gen::BYTES20);
        // BYTES20 strings shorter than lb+1 that only use bytes also in BYTES40 would be duplicates of the
        // enumeration above; count them as evaluations but not as distinct cases
        gen::for_each_string(&bu20, lb20, shard, n, |s, _| {
            let dup = (s.len() <= lb as usize && s.iter().all(|b| gen::BYTES40.contains(b))) || in_chars27_enum(s, lc);
            eval(s, &mut st, if dup { Distinct::Skip } else { Distinct::Enumerated }, "bytes20");
        });
        // every non-ground state entered, a whitespace control executed there, then a run of 1..=40 printable bytes (word-
        // at-a-time fast paths must still consult the state), the sequence finished, more text
        if shard == 0 || (n > 1 && shard == 1) {
            let intros: [&[u8]; 12] = [b"\x1b", b"\x1b[", b"\x1b[1;38;2;", b"\x1b[?", b"\x1b[1 ", b"\x1b(", b"\x1b]0;", b"\x1bP", b"\x1bP1;2", b"\x1bP1$q", b"\x1b_", b"\x1bX"];
            let closers: [&[u8]; 4] = [b"m", b"\x07", b"\x1b\\", b"\x18"];
            for (ii, intro) in intros.iter().enumerate() {
                if n > 1 && ii % 2 != shard as usize % 2 {
                    continue;
                }
                for ws in [&b"\n"[..], b"\t", b"\r\n", b"\x0c"] {
                    for run in [1usize, 7, 8, 9, 15, 16, 17, 31, 32, 33, 40] {
                        for closer in closers {
                            let mut d = b"head".to_vec();
                            d.extend_from_slice(intro);
                            d.extend_from_slice(ws);
                            d.extend((0..run).map(|k| b"255;128;0warning: disk almost full 0123456789"[k % 42]));
                            d.extend_from_slice(closer);
                            d.extend_from_slice(b"tail \xc3\xa9\x1b[0m.");
                            eval(&d, &mut st, Distinct::Enumerated, "whitespace-then-run-inside-sequence");
                        }
                    }
                }
            }
        }
        let per = nstreams / n + 1;
        for i in 0..per {
            let id = shard + i * n;
            if id >= nstreams {
                break;
            }
            let mut rng = Rng::new(cfg.seed, 0xC01_0000_0000 + id);
            let utf8_only = id % 3 == 0;
            // every tenth stream is built around one LONG piece whose length sits on a power-of-two threshold
            let s = if id % 10 == 9 { gen::gen_long_stream(&mut rng, long_thr, utf8_only) } else { gen::gen_stream(&mut rng, maxlen, utf8_only) };
            if id % 10 == 9 {
                st.count("long_threshold_streams");
            }
            if id < 6 {
                st.sample(6, || {
                    let mut o = J::obj();
                    o.set("origin", J::s("grammar stream"));
                    o.set("input", J::s(show(&s[..s.len().min(160)])));
                    o.set("len", J::UInt(s.len() as u64));
                    o.set("visible", J::s(show(&vt::visible(&s[..s.len().min(160)], Policy::Reprocess))));
                    o
                });
            }
            eval(&s, &mut st, Distinct::Hashed, "stream");
        }
        st
    });
    st.exhaustive_parts.push(format!("all strings of <= {lc} characters over CHARS27"));
    st.exhaustive_parts.push(format!("all strings of <= {lb} bytes over BYTES40"));
    st.exhaustive_parts.push(format!("all strings of <= {lb20} bytes over BYTES20"));
    st.exhaustive_parts.push("12 sequence introducers x 4 whitespace controls x printable runs of 1..40 bytes x 4 ways of ending".into());
    st.sample(24, || {
        let d = b"\x1b[3\n2mX";
        let mut o = J::obj();
        o.set("origin", J::s("fixed example (whitespace control inside CSI)"));
        o.set("input", J::s(show(d)));
        o.set("visible", J::s(show(&vt::visible(d, Policy::Reprocess))));
        o
    });
    st
}

pub fn replay(case: &Case) -> Result<String, Viol> {
    if case.kind == "c01-lit" {
        let steps: Vec<(usize, u8)> = case.nums.chunks(2).filter(|c| c.len() == 2).map(|c| ((c[0] as usize).min(LIT_FRAGMENTS.len() + CUT_FRAGMENTS.len() - 1), (c[1] as u8).min(2))).collect();
        return match crate::guarded(|| check_literal_script(&steps)) {
            Ok(Ok(())) => Ok(format!("the never-colour streams agree with the reference on the script {:?}", steps)),
            Ok(Err((sig, msg))) => Err(Viol { case: case.clone(), msg, sig }),
            Err(p) => Err(Viol { case: case.clone(), msg: format!("panicked: {p}"), sig: "c01:panic".into() }),
        };
    }
    let data = case.bytes.first().cloned().unwrap_or_default();
    let mut st = Stats::new();
    match crate::guarded(|| check_input(&data, &mut st)) {
        Ok(Ok(())) => Ok(format!("all strip entry points agree with the reference on {:?}", show(&data))),
        Ok(Err((sig, msg))) => Err(Viol { case: case.clone(), msg, sig }),
        Err(p) => Err(Viol { case: case.clone(), msg: format!("panicked: {p}"), sig: "c01:panic".into() }),
    }
}
