//! C07 — styled-run extraction follows standard SGR semantics.
use crate::adapt::state_of;
use crate::{par, Case, Cfg, Stats, Tier, Viol};
use anstream::adapter::WinconBytes;
use refmodel::gen::{self, Chunker, SgrOpts};
use refmodel::json::{show, J};
use refmodel::rng::{hash64, Rng};
use refmodel::sgr::{self, SgrState, UlMode};

/// Representative attribute groups for the exhaustive part: (text, underline class).
/// underline class: 0 = not underline related, 1 = plain on, 2..5 = style n, 9 = 4:0 (off)
pub const GROUPS: [(&str, u8); 58] = [
    ("0", 0),
    ("", 0),
    ("1", 0),
    ("2", 0),
    ("3", 0),
    ("7", 0),
    ("8", 0),
    ("9", 0),
    ("4", 1),
    ("4:1", 1),
    ("21", 2),
    ("4:2", 2),
    ("4:3", 3),
    ("4:4", 4),
    ("4:5", 5),
    ("4:0", 9),
    ("30", 0),
    ("37", 0),
    ("41", 0),
    ("46", 0),
    ("90", 0),
    ("97", 0),
    ("100", 0),
    ("105", 0),
    ("39", 0),
    ("49", 0),
    ("38;5;1", 0),
    ("38;5;196", 0),
    ("38:5:196", 0),
    ("48;5;7", 0),
    ("48:5:255", 0),
    ("58;5;3", 0),
    ("58:5:200", 0),
    ("38;2;1;2;3", 0),
    ("38:2:1:2:3", 0),
    ("48;2;255;0;9", 0),
    ("58:2:4:5:6", 0),
    ("58;2;0;128;255", 0),
    ("26", 0),
    ("99", 0),
    // colon-form colour groups cut short: a self-delimited group without a representation, changes nothing
    ("38:2:10:20", 0),
    ("58:2:7", 0),
    ("48:5", 0),
    ("38:2", 0),
    // surplus sub-parameters after a complete indexed colour: still that colour, nothing else
    ("38:5:196:1", 0),
    ("58:5:33:0", 0),
    ("48:5:7:4:3", 0),
    // codes beyond 255 whose low byte is a known code, and colon-form colours of a type other than 2 / 5 (T.416 CMY, CMYK,
    // transparent ...): codes without a representation, nothing changes
    ("256", 0),
    ("257", 0),
    ("286", 0),
    ("304", 0),
    ("65535", 0),
    ("38:3:1:2:3", 0),
    ("58:4:0:9:9:9", 0),
    ("48:1", 0),
    // underline styles the type cannot express (two readings, see check_text)
    ("4:6", 1),
    ("4:8", 1),
    ("4:65535", 1),
];

/// DESIGN 8.4: within one reset epoch at most one underline style; 4:0 only when the current style is plain / none.
fn underline_ok(seq: &[usize]) -> bool {
    let mut cur: u8 = 0; // 0 none, 1 plain, 2..5 style
    for &g in seq {
        let (text, cls) = GROUPS[g];
        if text == "0" || text.is_empty() {
            cur = 0;
            continue;
        }
        match cls {
            0 => {}
            9 => {
                if cur > 1 {
                    return false;
                }
                cur = 0;
            }
            c => {
                // (a plain underline replaced by a styled one is within the domain: every reading agrees that the
                // styled one is then in effect; the other orders are not)
                if cur != 0 && cur != c && !(cur == 1 && c >= 2) {
                    return false;
                }
                cur = c;
            }
        }
    }
    true
}

type Runs = Vec<(char, SgrState)>;

fn extract(chunks: &[&[u8]]) -> (Runs, SgrState) {
    let mut wb = WinconBytes::new();
    let mut out = vec![];
    for c in chunks {
        for (style, text) in wb.extract_next(c) {
            let s = state_of(style).normalized();
            for ch in text.chars() {
                out.push((ch, s));
            }
        }
    }
    // the style in effect after the input: observed through a probe character
    let mut fin = SgrState::default();
    for (style, text) in wb.extract_next(b"#") {
        if text.contains('#') {
            fin = state_of(style).normalized();
        }
    }
    (out, fin)
}

/// A copy of the extractor (Clone / clone_from into a used one) taken between two calls carries the style in effect and
/// any sequence in progress: it treats the rest of the input exactly like the original.
fn check_clone(data: &[u8]) -> Result<(), (String, String)> {
    if data.len() < 2 {
        return Ok(());
    }
    for cut in [data.len() / 2, data.len() / 3 + 1, data.len() - 1] {
        let (a, b) = data.split_at(cut.min(data.len() - 1).max(1));
        let mut orig = WinconBytes::new();
        for _ in orig.extract_next(a) {}
        let mut copy = orig.clone();
        let mut used = WinconBytes::new();
        for _ in used.extract_next(b"\x1b[1;4;35;46mused\x1b[38;5") {}
        used.clone_from(&orig);
        let want: Vec<(anstyle::Style, String)> = orig.extract_next(b).collect();
        let got1: Vec<(anstyle::Style, String)> = copy.extract_next(b).collect();
        let got2: Vec<(anstyle::Style, String)> = used.extract_next(b).collect();
        if got1 != want || got2 != want {
            return Err(("c07:clone".into(), format!("a copy of the extractor taken after {} bytes (clone / clone_from) yields {:?} / {:?} for the rest, the original {:?}", a.len(), got1, got2, want)));
        }
        if copy != orig || used != orig {
            return Err(("c07:clone".into(), format!("a copy of the extractor taken after {} bytes and fed the same bytes does not compare equal to the original", a.len())));
        }
    }
    Ok(())
}

pub fn check_text(data: &[u8], cuts: &[usize], st: Option<&mut Stats>) -> Result<(), (String, String)> {
    check_clone(data)?;
    let first = check_text_reading(data, cuts, st, false);
    if first.is_err() {
        // `4:n` with a style the type cannot express may change nothing or be read as plain underline: a disagreement
        // under the first reading only counts if the second does not explain the output either
        let (a, _) = sgr::interpret(data, UlMode::Select);
        let (b, _) = sgr::interpret_alt(data, UlMode::Select);
        if a != b && check_text_reading(data, cuts, None, true).is_ok() {
            return Ok(());
        }
    }
    first
}

fn check_text_reading(data: &[u8], cuts: &[usize], st: Option<&mut Stats>, alt: bool) -> Result<(), (String, String)> {
    let (want, want_fin) = if alt { sgr::interpret_alt(data, UlMode::Select) } else { sgr::interpret(data, UlMode::Select) };
    let chunks = gen::split_at_cuts(data, cuts);
    let (got, got_fin) = extract(&chunks);
    if let Some(st) = st {
        let styles: std::collections::HashSet<SgrState> = want.iter().map(|(_, s)| *s).collect();
        st.add("visible_characters_compared", want.len() as u64);
        st.add("distinct_styles_in_effect", styles.len() as u64);
    }
    if got.len() != want.len() || got.iter().zip(want.iter()).any(|(a, b)| a.0 != b.0) {
        let g: String = got.iter().map(|x| x.0).collect();
        let w: String = want.iter().map(|x| x.0).collect();
        return Err(("c07:text".into(), format!("visible text differs: observed {:?}, expected {:?}", show(g.as_bytes()), show(w.as_bytes()))));
    }
    for (i, (a, b)) in got.iter().zip(want.iter()).enumerate() {
        let b1 = b.1.normalized();
        if a.1 != b1 {
            return Err((
                "c07:style".into(),
                format!("character {i} ({:?}) carries [{}], a conforming terminal would show [{}]", a.0, a.1.describe(), b1.describe()),
            ));
        }
    }
    if got_fin != want_fin.normalized() {
        return Err(("c07:style-after-input".into(), format!("style in effect after the input is [{}], expected [{}]", got_fin.describe(), want_fin.normalized().describe())));
    }
    Ok(())
}

fn eval(data: &[u8], cuts: &[usize], st: &mut Stats, enumerated: bool, origin: &str) {
    if matches!(origin, "whitespace-control-inside-sequence" | "truncated-colour-at-end-of-sequence" | "aborted-or-overflowed-sequence" | "colour-values" | "abandoned-with-open-colon-group") && crate::tiny_skip(8) {
        return;
    }
    st.eval();
    if enumerated {
        st.nontrivial_enum();
    } else if data.contains(&0x1b) {
        let mut key = data.to_vec();
        for c in cuts {
            key.extend_from_slice(&(*c as u32).to_le_bytes());
        }
        st.nontrivial_hash(hash64(&key));
    }
    let mk = || {
        let mut c = Case::new("c07").b(data);
        for x in cuts {
            c = c.n(*x as i64);
        }
        c
    };
    match crate::guarded(|| check_text(data, cuts, Some(st))) {
        Ok(Ok(())) => {}
        Ok(Err((sig, msg))) => st.viol(&sig, format!("[{origin}] {:?}: {msg}", show(&data[..data.len().min(120)])), mk()),
        Err(p) => st.viol("c07:panic", format!("[{origin}] panicked: {p}"), mk()),
    }
}

pub fn run(cfg: &Cfg) -> Stats {
    let (depth, ntext, items, max_thr) = match cfg.tier {
        Tier::Tiny => (1u32, 30u64, 12u64, 128usize),
        Tier::Quick => (3, 30_000, 40, 16384),
        Tier::Thorough => (4, 2_000_000, 60, 65536),
    };
    let prefixes: [&[u8]; 3] = [b"", b"\x1b[1;3;31;42;58;5;9mP", b"\x1b[4;9;38;2;9;8;7;48;5;200mQ"];
    let mut st = par(cfg, |shard, n| {
        let mut st = Stats::new();
        // exhaustive: every sequence of <= depth groups, from the default state and from two non-default states
        let k = GROUPS.len() as u64;
        // depth 4 over the full set would be 2.6M x 3 prefixes: still fine
        let total = gen::enum_count(k, depth);
        let mut digits = vec![];
        let mut idx = shard;
        while idx < total {
            gen::enum_decode(idx, k, &mut digits);
            if underline_ok(&digits) {
                for (pi, p) in prefixes.iter().enumerate() {
                    // prefixes carry an underline style: combine only with sequences that keep the rule
                    if pi == 2 {
                        let mut seq = vec![8usize];
                        seq.extend_from_slice(&digits);
                        if !underline_ok(&seq) {
                            continue;
                        }
                    }
                    let mut data = p.to_vec();
                    data.extend_from_slice(b"\x1b[");
                    for (i, d) in digits.iter().enumerate() {
                        if i > 0 {
                            data.push(b';');
                        }
                        data.extend_from_slice(GROUPS[*d].0.as_bytes());
                    }
                    data.extend_from_slice(b"mX\x1b[1mY");
                    if idx % 50_000 == 7 {
                        st.sample(4, || {
                            let mut o = J::obj();
                            o.set("origin", J::s("exhaustive attribute groups"));
                            o.set("input", J::s(show(&data)));
                            o
                        });
                    }
                    eval(&data, &[], &mut st, true, "groups");
                }
            } else {
                st.count("group_sequences_skipped_two_underline_styles_in_one_epoch");
            }
            idx += n;
        }
        // a whitespace control (executed, so it is visible text in the style so far) at every position inside every
        // single-group and some two-group sequences; the sequence itself goes on and takes effect
        if shard == 0 || n > 1 && shard == 1 {
            for (gi, (g, _)) in GROUPS.iter().enumerate() {
                for second in ["", ";1", ";38;5;9"] {
                    let body = format!("{g}{second}m");
                    for pos in 0..=body.len() - 1 {
                        for ws in ["\n", "\t", "\r", "\r\n"] {
                            if (gi + pos) % 2 != (shard as usize) % 2 && n > 1 {
                                continue;
                            }
                            let mut d = b"one\x1b[".to_vec();
                            d.extend_from_slice(body[..pos].as_bytes());
                            d.extend_from_slice(ws.as_bytes());
                            d.extend_from_slice(body[pos..].as_bytes());
                            d.extend_from_slice(b"text\x1b[0mz");
                            eval(&d, &[], &mut st, true, "whitespace-control-inside-sequence");
                        }
                    }
                }
            }
            // a sequence that ends inside a ';'-spelled colour specification: nothing of it survives into the next
            // sequence (in the same call, in the next call, after another kind of sequence)
            for tail in ["38", "38;5", "48;2;7", "58;2;1;2", "38;2", "48;5", "58"] {
                for pre in ["", "1;", "4:3;32;"] {
                    for between in ["X", "", "\x1b]0;t\x07", "\x1b[2J"] {
                        for follow in ["1", "31", "4;44", "0", "7;9", "2;3;4"] {
                            let d = format!("a\x1b[{pre}{tail}m{between}\x1b[{follow}mY\x1b[0mz");
                            eval(d.as_bytes(), &[], &mut st, true, "truncated-colour-at-end-of-sequence");
                            let cut = d.find('m').unwrap() + 1;
                            eval(d.as_bytes(), &[cut], &mut st, true, "truncated-colour-at-end-of-sequence");
                        }
                    }
                }
            }
            // every C0 control and DEL as text between two sequences and inside a sequence (only TAB, LF, FF, CR are text)
            for c in (0u8..0x20).chain(std::iter::once(0x7f)) {
                if c == 0x1b || c == 0x18 || c == 0x1a {
                    continue;
                }
                let ch = c as char;
                eval(format!("\x1b[32ma{ch}b\x1b[1m{ch}\x1b[0mc").as_bytes(), &[], &mut st, true, "c0-control");
                eval(format!("a\x1b[3{ch}1mb").as_bytes(), &[], &mut st, true, "c0-control");
            }
            // ... and a sequence that is cut off by the line break and never finished before the next one starts
            for tail in ["\x1b[31\n\x1b[32mtext", "\x1b[3\n\x1b[1mtext", "\x1b]0;ti\ntle\x07text", "\x1b[38;5\n\x1b[4mtext"] {
                eval(format!("one{tail}").as_bytes(), &[], &mut st, true, "whitespace-control-inside-sequence");
            }
        }
        // a sequence abandoned while a ':' group is open (ESC restart, CAN, SUB, a private marker that turns it into an
        // ignored sequence, parameter overflow), then ordinary sequences
        if shard == 0 {
            for open in ["4:3", "38:5:", "38:2:1:2", "1;4:", "58:5:9:", "1;2;3;4;5;6;7;8;9;10;11;12;13;14;15;16;17;18;19;20;21;22;23;24;25;26;27;28;29;30;31:1:2:3"] {
                for abort in ["\x1b", "\x18", "\x1a", "<m", "\x1b\x18"] {
                    for after in ["\x1b[1m", "\x1b[31;4:3m", "x\x1b[38:5:9m"] {
                        let d = format!("a\x1b[{open}{abort}{after}red\x1b[0my");
                        eval(d.as_bytes(), &[], &mut st, true, "abandoned-with-open-colon-group");
                        let cut = 3 + open.len() + abort.len();
                        eval(d.as_bytes(), &[cut], &mut st, true, "abandoned-with-open-colon-group");
                    }
                }
            }
        }
        // sequences that never reach a dispatch, or reach it in an overflowed state, followed by an ordinary SGR sequence:
        // 31..=40 parameters / 0..=4 intermediates, left open or finished, then aborted by ESC / CAN / SUB / nothing
        if shard == 0 {
            for nparams in [1usize, 16, 31, 32, 33, 34, 40] {
                for ninter in 0..=4usize {
                    for finish in ["", "m", "q"] {
                        for abort in ["", "\x1b", "\x18", "\x1a", "\x1b\x1b"] {
                            for intro in ["\x1b[", "\x1bP"] {
                                // an SGR sequence with more values than the parser stores that *is* dispatched: whether
                                // a terminal drops it or applies what fits is not settled by the statement
                                if intro == "\x1b[" && finish == "m" && nparams > 32 {
                                    continue;
                                }
                                let mut d = b"a".to_vec();
                                d.extend_from_slice(intro.as_bytes());
                                for i in 0..nparams {
                                    if i > 0 {
                                        d.push(if i % 5 == 4 { b':' } else { b';' });
                                    }
                                    d.push(b'1');
                                }
                                d.extend(std::iter::repeat(b' ').take(ninter));
                                d.extend_from_slice(finish.as_bytes());
                                d.extend_from_slice(abort.as_bytes());
                                if intro == "\x1bP" && !abort.contains('\x1b') && abort != "\x18" && abort != "\x1a" {
                                    d.extend_from_slice(b"\x1b\\"); // close the device control string
                                }
                                d.extend_from_slice(b"\x1b[31mred\x1b[4;44mx\x1b[0my");
                                eval(&d, &[], &mut st, true, "aborted-or-overflowed-sequence");
                            }
                        }
                    }
                }
            }
        }
        // every colour value: all 256 indices and all 256 values of each RGB component, for each target and spelling
        let mut kk = 0u64;
        for target in [38u32, 48, 58] {
            for sep in [';', ':'] {
                for v in 0..=255u32 {
                    kk += 1;
                    if kk % n != shard {
                        continue;
                    }
                    let a = (v * 7 + 13) % 256;
                    let b = (v * 31 + 101) % 256;
                    let cases = [
                        format!("\x1b[{target}{sep}5{sep}{v}mX"),
                        format!("\x1b[1mP\x1b[{target}{sep}2{sep}{v}{sep}{a}{sep}{b}mX\x1b[3mY"),
                        format!("\x1b[{target}{sep}2{sep}{a}{sep}{v}{sep}{b}mX"),
                        format!("\x1b[4mQ\x1b[{target}{sep}2{sep}{b}{sep}{a}{sep}{v};7mX"),
                    ];
                    for c in cases {
                        eval(c.as_bytes(), &[], &mut st, true, "colour-values");
                    }
                }
            }
        }
        // runs whose length sits on a power-of-two threshold, ended by a style change / CRLF / reset / end of input
        for (ti, t) in gen::THRESHOLDS.iter().enumerate() {
            if *t > max_thr {
                continue;
            }
            for d in -2i64..=2 {
                for ending in 0..4u8 {
                    for styled in [false, true] {
                        kk += 1;
                        if kk % n != shard {
                            continue;
                        }
                        let doc = gen::threshold_document((*t as i64 + d) as usize, ending, styled);
                        eval(&doc, &[], &mut st, true, "threshold-run");
                        if ti < 8 {
                            let cuts = [doc.len() / 2];
                            eval(&doc, &cuts, &mut st, true, "threshold-run-chunked");
                        }
                    }
                }
            }
        }
        // generated texts, one-shot and under chunkings
        let mut i = shard;
        while i < ntext {
            let mut rng = Rng::new(cfg.seed, 0xC07_0000_0000 + i);
            let data = gen::gen_sgr_text(&mut rng, SgrOpts::default(), items, &[]);
            if i < 4 {
                st.sample(10, || {
                    let mut o = J::obj();
                    o.set("origin", J::s("SGR grammar text"));
                    o.set("input", J::s(show(&data[..data.len().min(200)])));
                    o.set("len", J::UInt(data.len() as u64));
                    o
                });
            }
            eval(&data, &[], &mut st, false, "text");
            if data.len() >= 2 {
                for c in [Chunker::Single, Chunker::Random(5), Chunker::Random(40), Chunker::Fixed(3)] {
                    let cuts = gen::chunk_cuts(&mut rng, data.len(), c);
                    eval(&data, &cuts, &mut st, false, "text-chunked");
                }
            }
            i += n;
        }
        st
    });
    st.exhaustive_parts.push("a whitespace control (LF, TAB, CR, CRLF) at every position inside every single-group sequence (alone, followed by ;1, followed by ;38;5;9)".into());
    st.exhaustive_parts.push("CSI / DCS sequences with 1..40 parameters x 0..4 intermediates, left open / finished, aborted by ESC / CAN / SUB / nothing, followed by ordinary SGR sequences".into());
    st.exhaustive_parts.push("all 256 indexed values and all 256 values of each RGB component for fg / bg / underline colour in both ';' and ':' spellings".into());
    st.exhaustive_parts.push(format!(
        "all single SGR sequences of <= {depth} attribute groups over a {}-group representative set, from 3 start states (sequences selecting two underline styles in one epoch excluded, DESIGN 8.4)",
        GROUPS.len()
    ));
    st
}

pub fn replay(case: &Case) -> Result<String, Viol> {
    let data = case.bytes.first().cloned().unwrap_or_default();
    let cuts: Vec<usize> = case.nums.iter().map(|n| *n as usize).collect();
    match crate::guarded(|| check_text(&data, &cuts, None)) {
        Ok(Ok(())) => Ok("extracted runs carry the styles of the reference SGR interpreter".into()),
        Ok(Err((sig, msg))) => Err(Viol { case: case.clone(), msg, sig }),
        Err(p) => Err(Viol { case: case.clone(), msg: format!("panicked: {p}"), sig: "c07:panic".into() }),
    }
}
