//! C16 — conversions to other styling crates preserve colours and effects.
use refmodel::json::{show, J};
use refmodel::rng::{hash64, Rng};
use refmodel::sgr::{fx, Col, RefSgr, SgrState, UlMode};
use refmodel::vt::{self, Ev, Policy};
use vcore::adapt::style_of;
use vcore::{par, Case, Cfg, Stats, Tier, Viol};

#[derive(Clone, Copy, Debug, PartialEq, Eq)]
pub enum Adapter {
    AnsiTerm,
    Crossterm,
    Owo,
    Termcolor,
    Yansi,
}
pub const ADAPTERS: [Adapter; 5] = [Adapter::AnsiTerm, Adapter::Crossterm, Adapter::Owo, Adapter::Termcolor, Adapter::Yansi];

impl Adapter {
    fn name(self) -> &'static str {
        match self {
            Adapter::AnsiTerm => "ansi_term",
            Adapter::Crossterm => "crossterm",
            Adapter::Owo => "owo_colors",
            Adapter::Termcolor => "termcolor",
            Adapter::Yansi => "yansi",
        }
    }
    /// effects the target library can express (DESIGN 8.8, from each library's public API)
    fn expressible_fx(self) -> u16 {
        use fx::*;
        let common = BOLD | DIM | ITALIC | UNDERLINE | BLINK | INVERT | HIDDEN | STRIKE;
        match self {
            Adapter::AnsiTerm | Adapter::Owo | Adapter::Yansi => common,
            Adapter::Crossterm => common | DOUBLE_UNDERLINE | CURLY_UNDERLINE | DOTTED_UNDERLINE | DASHED_UNDERLINE,
            Adapter::Termcolor => BOLD | DIM | ITALIC | UNDERLINE | STRIKE,
        }
    }
    fn has_brightness(self) -> bool {
        matches!(self, Adapter::Crossterm | Adapter::Owo | Adapter::Yansi)
    }
    fn has_underline_color(self) -> bool {
        matches!(self, Adapter::Crossterm)
    }
}

/// Render "x" in the converted style with the target library itself.
pub fn render(a: Adapter, style: anstyle::Style) -> Vec<u8> {
    match a {
        Adapter::AnsiTerm => anstyle_ansi_term::to_ansi_term(style).paint("x").to_string().into_bytes(),
        Adapter::Crossterm => format!("{}", anstyle_crossterm::to_crossterm(style).apply("x")).into_bytes(),
        Adapter::Owo => {
            use owo_colors::OwoColorize as _;
            format!("{}", "x".style(anstyle_owo_colors::to_owo_style(style))).into_bytes()
        }
        Adapter::Termcolor => {
            use std::io::Write as _;
            use termcolor::WriteColor as _;
            let mut w = termcolor::Ansi::new(Vec::new());
            let spec = anstyle_termcolor::to_termcolor_spec(style);
            let _ = w.set_color(&spec);
            let _ = w.write_all(b"x");
            let _ = w.reset();
            w.into_inner()
        }
        Adapter::Yansi => {
            use yansi::Paint as _;
            format!("{}", "x".paint(anstyle_yansi::to_yansi_style(style))).into_bytes()
        }
    }
}

/// state in effect when the 'x' is printed
fn state_at_x(bytes: &[u8]) -> Result<SgrState, String> {
    let ev = vt::parse(bytes, Policy::Consume);
    let mut sgr = RefSgr::new(UlMode::Flags);
    for e in &ev {
        match e {
            Ev::Print('x') => return Ok(sgr.s.normalized()),
            Ev::Print(c) => return Err(format!("unexpected text {c:?} before the payload in {:?}", show(bytes))),
            e => {
                sgr.on_event(e);
            }
        }
    }
    Err(format!("the payload 'x' does not appear in {:?}", show(bytes)))
}

fn check_color(a: Adapter, slot: &str, src: Option<Col>, got: Option<Col>) -> Result<(), (String, String)> {
    let n = a.name();
    match (src.map(Col::normalized), got) {
        (None, None) => Ok(()),
        (None, Some(g)) => Err((format!("c16:{n}:{slot}:spurious"), format!("no {slot} colour in the source, the output shows {g:?}"))),
        (Some(s), None) => Err((format!("c16:{n}:{slot}:dropped"), format!("{slot} colour {s:?} is missing from the output"))),
        (Some(Col::P16(s)), Some(Col::P16(g))) => {
            if s % 8 != g % 8 {
                return Err((format!("c16:{n}:{slot}:hue"), format!("{slot} hue changed: source palette colour {s}, output shows palette colour {g}")));
            }
            // a target without (per-slot) bright colours may lose brightness, but nothing may *become* bright
            if s < 8 && g >= 8 {
                return Err((format!("c16:{n}:{slot}:brightness"), format!("{slot} became bright: source palette colour {s}, output shows {g}")));
            }
            if a.has_brightness() && s != g {
                return Err((format!("c16:{n}:{slot}:brightness"), format!("{slot} brightness changed: source palette colour {s}, output shows {g}")));
            }
            Ok(())
        }
        (Some(s), Some(g)) => {
            if s != g {
                return Err((format!("c16:{n}:{slot}:value"), format!("{slot} colour changed: source {s:?}, output shows {g:?}")));
            }
            Ok(())
        }
    }
}

pub fn check(a: Adapter, src: SgrState) -> Result<(), (String, String)> {
    let style = style_of(src);
    let out = render(a, style);
    let got = state_at_x(&out).map_err(|e| (format!("c16:{}:output", a.name()), e))?;
    let ctx = |r: Result<(), (String, String)>| r.map_err(|(s, m)| (s, format!("[{}] -> {:?}: {m}", src.describe(), show(&out))));
    ctx(check_color(a, "fg", src.fg, got.fg))?;
    ctx(check_color(a, "bg", src.bg, got.bg))?;
    if a.has_underline_color() {
        ctx(check_color(a, "underline", src.ul, got.ul))?;
    }
    let ex = a.expressible_fx();
    let mut want = src.fx & ex;
    let mut have = got.fx & ex;
    if a == Adapter::AnsiTerm {
        // ansi_term has no bright colours; the adapter may use bold to approximate a bright foreground
        if let Some(Col::P16(n)) = src.fg {
            if n >= 8 {
                want &= !fx::BOLD;
                have &= !fx::BOLD;
            }
        }
    }
    if want != have {
        for i in 0..12 {
            let bit = 1u16 << i;
            if want & bit != 0 && have & bit == 0 {
                return ctx(Err((format!("c16:{}:effect-dropped:{}", a.name(), fx::NAMES[i]), format!("effect {} is lost", fx::NAMES[i]))));
            }
            if want & bit == 0 && have & bit != 0 {
                return ctx(Err((format!("c16:{}:effect-spurious:{}", a.name(), fx::NAMES[i]), format!("effect {} appears although the source does not have it", fx::NAMES[i]))));
            }
        }
    }
    Ok(())
}

/// termcolor: `set_color` replaces the writer's colour settings, so after set_color(a); set_color(b) the text is shown in b
/// alone, whatever a was (the other libraries wrap the text in prefix / suffix and are checked from the default state).
pub fn check_termcolor_sequence(first: SgrState, second: SgrState) -> Result<(), (String, String)> {
    use std::io::Write as _;
    use termcolor::WriteColor as _;
    let mut w = termcolor::Ansi::new(Vec::new());
    let _ = w.set_color(&anstyle_termcolor::to_termcolor_spec(style_of(first)));
    let _ = w.write_all(b"y");
    let _ = w.set_color(&anstyle_termcolor::to_termcolor_spec(style_of(second)));
    let _ = w.write_all(b"x");
    let _ = w.reset();
    let out = w.into_inner();
    let mut alone = termcolor::Ansi::new(Vec::new());
    let _ = alone.set_color(&anstyle_termcolor::to_termcolor_spec(style_of(second)));
    let _ = alone.write_all(b"x");
    let _ = alone.reset();
    let alone = alone.into_inner();
    let i = out.iter().position(|b| *b == b'y').map(|p| p + 1).unwrap_or(0);
    // interpret the whole output, skipping the first payload
    let ev = vt::parse(&out, Policy::Consume);
    let mut sgr = RefSgr::new(UlMode::Flags);
    let mut got = None;
    for e in &ev {
        match e {
            Ev::Print('x') => {
                got = Some(sgr.s.normalized());
                break;
            }
            Ev::Print(_) => {}
            e => {
                sgr.on_event(e);
            }
        }
    }
    let want = state_at_x(&alone).map_err(|e| ("c16:termcolor:output".to_string(), e))?;
    if got != Some(want) {
        return Err((
            "c16:termcolor:sequence".into(),
            format!("set_color([{}]) then set_color([{}]) -> {:?}: the second text is shown in {:?}, on its own the second style shows {:?}", first.describe(), second.describe(), show(&out[i.saturating_sub(1)..]), got.map(|g| g.describe()), want.describe()),
        ));
    }
    Ok(())
}

pub fn check_syntect(r: u8, g: u8, b: u8, r2: u8, g2: u8, b2: u8, font: u8) -> Result<(), (String, String)> {
    use syntect::highlighting::{Color, FontStyle, Style};
    let fs = FontStyle::from_bits_truncate(font);
    // alpha is not part of the statement ("keeps the RGB colours"): vary it, including 0, so that a dependence shows
    let alpha = [0xffu8, 0x80, 0x00, 0x01, r ^ b2];
    let s = Style { foreground: Color { r, g, b, a: alpha[(r as usize + font as usize) % 5] }, background: Color { r: r2, g: g2, b: b2, a: alpha[(g as usize + b as usize) % 5] }, font_style: fs };
    let got = vcore::adapt::state_of(anstyle_syntect::to_anstyle(s));
    let mut f = 0u16;
    if fs.contains(FontStyle::BOLD) {
        f |= fx::BOLD;
    }
    if fs.contains(FontStyle::ITALIC) {
        f |= fx::ITALIC;
    }
    if fs.contains(FontStyle::UNDERLINE) {
        f |= fx::UNDERLINE;
    }
    let want = SgrState { fg: Some(Col::Rgb(r, g, b)), bg: Some(Col::Rgb(r2, g2, b2)), ul: None, fx: f };
    if got != want {
        return Err(("c16:syntect".into(), format!("syntect style fg=({r},{g},{b}) bg=({r2},{g2},{b2}) font={font:#x} converts to [{}], expected [{}]", got.describe(), want.describe())));
    }
    Ok(())
}

fn encode(a: Adapter, s: SgrState) -> Case {
    let enc = |c: Option<Col>| -> i64 {
        match c {
            None => -1,
            Some(Col::P16(n)) => 0x1000000 + n as i64,
            Some(Col::Idx(n)) => 0x2000000 + n as i64,
            Some(Col::Rgb(r, g, b)) => 0x3000000 + ((r as i64) << 16) + ((g as i64) << 8) + b as i64,
        }
    };
    Case::new("c16").n(ADAPTERS.iter().position(|x| *x == a).unwrap() as i64).n(enc(s.fg)).n(enc(s.bg)).n(enc(s.ul)).n(s.fx as i64)
}

fn decode(c: &Case) -> (Adapter, SgrState) {
    let dec = |v: i64| -> Option<Col> {
        match v >> 24 {
            1 => Some(Col::P16((v & 0xf) as u8)),
            2 => Some(Col::Idx((v & 0xff) as u8)),
            3 => Some(Col::Rgb((v >> 16) as u8, (v >> 8) as u8, v as u8)),
            _ => None,
        }
    };
    let g = |i: usize| c.nums.get(i).copied().unwrap_or(-1);
    (ADAPTERS[g(0).max(0) as usize % 5], SgrState { fg: dec(g(1)), bg: dec(g(2)), ul: dec(g(3)), fx: (g(4).max(0) as u16) & 0xfff })
}

fn eval(a: Adapter, s: SgrState, st: &mut Stats, enumerated: bool) {
    st.eval();
    if s != SgrState::default() {
        if enumerated {
            st.nontrivial_enum();
        } else {
            st.nontrivial_hash(hash64(format!("{a:?}{s:?}").as_bytes()));
        }
    }
    match vcore::guarded(|| check(a, s)) {
        Ok(Ok(())) => {}
        Ok(Err((sig, msg))) => st.viol(&sig, msg, encode(a, s)),
        Err(p) => st.viol(&format!("c16:{}:panic", a.name()), format!("panicked: {p}"), encode(a, s)),
    }
}

pub fn colours() -> Vec<Col> {
    let mut v: Vec<Col> = (0..16).map(Col::P16).collect();
    v.extend((0..=255u8).map(Col::Idx));
    let lv = [0u8, 1, 51, 95, 128, 170, 200, 254, 255];
    for r in lv {
        for g in lv {
            for b in lv {
                v.push(Col::Rgb(r, g, b));
            }
        }
    }
    v
}

const FXSETS: [u16; 8] = [0, fx::BOLD, fx::UNDERLINE | fx::ITALIC, fx::STRIKE, 0xfff, fx::DIM | fx::BLINK | fx::INVERT | fx::HIDDEN, fx::DOUBLE_UNDERLINE, fx::CURLY_UNDERLINE | fx::DOTTED_UNDERLINE | fx::DASHED_UNDERLINE];
const EIGHT: [Option<Col>; 8] = [None, Some(Col::P16(1)), Some(Col::P16(12)), Some(Col::P16(15)), Some(Col::Idx(4)), Some(Col::Idx(200)), Some(Col::Rgb(1, 2, 3)), Some(Col::Rgb(255, 128, 0))];

fn seq_states(i: usize, f1: u16, f2: u16) -> (SgrState, SgrState) {
    let first = SgrState { fg: EIGHT[i % 8], bg: EIGHT[(i + 3) % 8], ul: None, fx: f1 };
    let second = SgrState { fg: EIGHT[(i + 5) % 8], bg: if i % 2 == 0 { None } else { EIGHT[(i + 1) % 8] }, ul: None, fx: f2 };
    (first, second)
}

pub fn run(cfg: &Cfg) -> Stats {
    let nrand = match cfg.tier {
        Tier::Tiny => 100u64,
        Tier::Quick => 50_000,
        Tier::Thorough => 2_000_000,
    };
    let cols = colours();
    let fxsets = FXSETS;
    let eight = EIGHT;
    let mut st = par(cfg, |shard, n| {
        let mut st = Stats::new();
        let mut k = 0u64;
        let mut mine = || {
            k += 1;
            k % n == shard
        };
        for a in ADAPTERS {
            // colours x 8 effect sets, per slot
            for c in &cols {
                if !mine() {
                    continue;
                }
                for f in fxsets {
                    for slot in 0..3 {
                        let mut s = SgrState { fx: f, ..Default::default() };
                        match slot {
                            0 => s.fg = Some(*c),
                            1 => s.bg = Some(*c),
                            _ => s.ul = Some(*c),
                        }
                        eval(a, s, &mut st, true);
                    }
                }
            }
            // all 16x16 palette pairs (brightness / hue per slot independent of the other slot)
            for f in 0..16u8 {
                for b in 0..16u8 {
                    if mine() {
                        eval(a, SgrState { fg: Some(Col::P16(f)), bg: Some(Col::P16(b)), ul: Some(Col::P16(b)), fx: 0 }, &mut st, true);
                    }
                }
            }
            // all 4096 effect sets x 8 colour settings
            for bits in 0..4096u16 {
                if !mine() {
                    continue;
                }
                for (i, c) in eight.iter().enumerate() {
                    let s = SgrState { fg: *c, bg: eight[(i + 3) % 8], ul: eight[(i + 5) % 8], fx: bits };
                    eval(a, s, &mut st, true);
                }
            }
        }
        // termcolor: a second set_color replaces the first
        for (i, c) in eight.iter().enumerate() {
            for f1 in fxsets {
                for f2 in fxsets {
                    if !mine() {
                        continue;
                    }
                    let _ = c;
                    let (first, second) = seq_states(i, f1, f2);
                    st.eval();
                    st.nontrivial_enum();
                    st.count("termcolor_two_style_sequences");
                    if let Err((sig, msg)) = check_termcolor_sequence(first, second) {
                        st.viol(&sig, msg, Case::new("c16-termcolor-seq").n(i as i64).n(f1 as i64).n(f2 as i64));
                    }
                }
            }
        }
        // syntect -> anstyle
        for font in 0..8u8 {
            for v in [0u8, 1, 127, 128, 254, 255] {
                if !mine() {
                    continue;
                }
                st.eval();
                st.nontrivial_enum();
                if let Err((sig, msg)) = check_syntect(v, 255 - v, v / 2, 255 - v, v, 7, font) {
                    st.viol(&sig, msg, Case::new("c16-syntect").n(v as i64).n(font as i64));
                }
            }
        }
        let mut i = shard;
        while i < nrand {
            let mut rng = Rng::new(cfg.seed, 0xC16_0000_0000 + i);
            let s = vcore::c05::rand_state(&mut rng);
            let a = ADAPTERS[rng.below(5) as usize];
            if i < 5 {
                st.sample(8, || {
                    let mut o = J::obj();
                    o.set("adapter", J::s(a.name()));
                    o.set("style", J::s(s.describe()));
                    o.set("target_library_output", J::s(show(&render(a, style_of(s)))));
                    o
                });
            }
            eval(a, s, &mut st, false);
            st.eval();
            let (r, g, b, f) = (rng.byte(), rng.byte(), rng.byte(), rng.byte());
            if let Err((sig, msg)) = check_syntect(r, g, b, b, r, g, f) {
                st.viol(&sig, msg, Case::new("c16-syntect").n(r as i64).n(f as i64));
            }
            i += n;
        }
        st
    });
    st.exhaustive_parts.push("per adapter: all 16 + 256 colours and a 9^3 RGB lattice in each colour slot x 8 effect sets; all 16x16 palette pairs; all 4096 effect sets x 8 colour settings".into());
    st
}

pub fn replay(case: &Case) -> Result<String, Viol> {
    let r = if case.kind == "c16-syntect" {
        let v = case.nums.first().copied().unwrap_or(0) as u8;
        let f = case.nums.get(1).copied().unwrap_or(0) as u8;
        vcore::guarded(|| check_syntect(v, 255 - v, v / 2, 255 - v, v, 7, f))
    } else if case.kind == "c16-termcolor-seq" {
        let g = |i: usize| case.nums.get(i).copied().unwrap_or(0);
        let (first, second) = seq_states(g(0) as usize, g(1) as u16 & 0xfff, g(2) as u16 & 0xfff);
        vcore::guarded(|| check_termcolor_sequence(first, second))
    } else {
        let (a, s) = decode(case);
        vcore::guarded(|| check(a, s))
    };
    match r {
        Ok(Ok(())) => Ok("converted style renders with the same colours and effects".into()),
        Ok(Err((sig, msg))) => Err(Viol { case: case.clone(), msg, sig }),
        Err(p) => Err(Viol { case: case.clone(), msg: format!("panicked: {p}"), sig: "c16:panic".into() }),
    }
}
