mod c16;

fn main() {
    let args: Vec<String> = std::env::args().collect();
    if args.get(1).map(|s| s.as_str()) == Some("c17-child") {
        std::process::exit(vwincon::c17::child(&args[2..]));
    }
    if args.get(1).map(|s| s.as_str()) == Some("c17-mt") {
        std::process::exit(vwincon::c17::child_mt(&args[2..]));
    }
    if args.get(1).map(|s| s.as_str()) == Some("c18-lock") {
        std::process::exit(vwincon::c18::child_lock(&args[2..]));
    }
    let mut checks = vcore::lean_checks();
    checks.push(vcore::CheckDef { name: "c16", run: c16::run, replay: c16::replay });
    checks.push(vcore::CheckDef { name: "c17", run: vwincon::c17::run, replay: vwincon::c17::replay });
    checks.push(vcore::CheckDef { name: "c18", run: vwincon::c18::run, replay: vwincon::c18::replay });
    std::process::exit(vcore::cli_main(checks));
}
