//! C19 child.
//!   vh-mt print <threads> <records-per-thread> <seed>    many threads print tagged records through anstream
//!   vh-mt register <writers> <readers> <ops> <seed>      concurrent write_global()/global() history on stdout
//!   vh-mt canary-race                                    deliberately racy counter (sanitizer liveness check)
use std::io::Write;
use std::sync::atomic::{AtomicU64, Ordering};
use std::sync::{Arc, Barrier};

fn mix(mut z: u64) -> u64 {
    z = z.wrapping_add(0x9E37_79B9_7F4A_7C15);
    z = (z ^ (z >> 30)).wrapping_mul(0xBF58_476D_1CE4_E5B9);
    z = (z ^ (z >> 27)).wrapping_mul(0x94D0_49BB_1331_11EB);
    z ^ (z >> 31)
}

/// A fragment whose Display impl dawdles: the delay is injected on the caller's side, between the pieces of one
/// formatted write — exactly where a stream that locks per fragment would let another thread in.
struct Slow<'a>(&'a str, u64);

impl std::fmt::Display for Slow<'_> {
    fn fmt(&self, f: &mut std::fmt::Formatter<'_>) -> std::fmt::Result {
        match self.1 % 4 {
            0 => std::thread::yield_now(),
            1 => {
                for _ in 0..(self.1 % 400) {
                    std::hint::spin_loop();
                }
            }
            2 => {
                std::thread::yield_now();
                std::thread::yield_now();
            }
            _ => {}
        }
        f.write_str(self.0)
    }
}

/// Payload of record (tid, seq): text chunks separated by SGR sequences; fully determined by (tid, seq) so that the
/// checker can regenerate it.  Keep in sync with vlib/c19.py::payload.
fn payload_parts(tid: u64, seq: u64) -> Vec<String> {
    let n = 3 + (seq % 4);
    let mut parts = vec![];
    for k in 0..n {
        parts.push(format!("\x1b[{}m", 31 + (tid + seq + k) % 7));
        parts.push(format!("t{tid:x}s{seq:x}k{k}"));
    }
    parts.push("\x1b[0m".to_string());
    parts
}

fn record_fragments(tid: u64, seq: u64) -> [String; 5] {
    let parts = payload_parts(tid, seq);
    let third = parts.len() / 3;
    let a: String = parts[..third].concat();
    let b: String = parts[third..2 * third].concat();
    let c: String = parts[2 * third..].concat();
    [format!("<{tid}:{seq}:"), a, b, c, format!(":{:08x}>", (mix(tid * 1_000_003 + seq) & 0xffff_ffff))]
}

/// Keep in sync with vlib/c19.py::expected_record (long form).
fn long_record(tid: u64, seq: u64) -> String {
    let unit = format!("t{tid:x}s{seq:x}.");
    let mut tail = String::new();
    while tail.len() < 1500 {
        tail.push_str(&unit);
    }
    tail.truncate(1500);
    format!("<{tid}:{seq}:L\n{tail}:{:08x}>", mix(tid * 1_000_003 + seq) & 0xffff_ffff)
}

/// Keep in sync with vlib/c19.py::expected_record (long formatted form).
fn long_fmt_record(tid: u64, seq: u64) -> (String, String, String) {
    let unit = format!("f{tid:x}q{seq:x}.");
    let mut body = String::new();
    while body.len() < 12000 {
        body.push_str(&unit);
    }
    body.truncate(12000);
    (format!("<{tid}:{seq}:F"), body, format!(":{:08x}>", mix(tid * 1_000_003 + seq) & 0xffff_ffff))
}

/// First use of the global choice: readers call `global()` for the first time in this process while one writer
/// stores a value.  Prints the values read and the value held after everybody has finished.
fn first_mode(readers: u64, delay: u64) {
    // spin rendezvous (a futex barrier wakes its waiters microseconds apart, far wider than the window of interest)
    static ARRIVED: AtomicU64 = AtomicU64::new(0);
    let n = readers + 1;
    let rendezvous = move || {
        ARRIVED.fetch_add(1, Ordering::SeqCst);
        while ARRIVED.load(Ordering::SeqCst) < n {
            std::hint::spin_loop();
        }
    };
    let w = std::thread::spawn(move || {
        rendezvous();
        for _ in 0..delay {
            std::hint::spin_loop();
        }
        colorchoice::ColorChoice::Never.write_global();
    });
    let rs: Vec<_> = (0..readers)
        .map(|i| {
            std::thread::spawn(move || {
                rendezvous();
                for _ in 0..(i * 3) {
                    std::hint::spin_loop();
                }
                code(colorchoice::ColorChoice::global())
            })
        })
        .collect();
    w.join().expect("writer");
    let reads: Vec<u8> = rs.into_iter().map(|h| h.join().expect("reader")).collect();
    let fin = code(colorchoice::ColorChoice::global());
    println!("{} {}", reads.iter().map(|r| r.to_string()).collect::<Vec<_>>().join(","), fin);
}

/// `lock()` must carry the stream's parser state over: each case writes the first part through the unlocked stream,
/// flushes, locks, and writes the rest through the lock guard.  Keep in sync with vlib/c09.py::LOCKSEQ.
fn lockseq_mode() {
    let out_cases: [(&[u8], &[u8]); 3] = [(b"name\x1b[3", b"8;5;208m value\x1b[0m\n"), (b"t\x1b]0;ti", b"tle\x07x\n"), (b"a\x1b[1mb", b"\x1b[0mc\n")];
    for (a, b) in out_cases {
        let mut s = anstream::stdout();
        s.write_all(a).expect("write");
        s.flush().expect("flush");
        let mut l = s.lock();
        l.write_all(b).expect("write");
        l.flush().expect("flush");
    }
    let err_cases: [(&[u8], &[u8]); 2] = [(b"na\xc3", b"\xafve\n"), (b"warn\x1b[", b"33m: x\x1b[m\n")];
    for (a, b) in err_cases {
        let mut s = anstream::stderr();
        s.write_all(a).expect("write");
        s.flush().expect("flush");
        let mut l = s.lock();
        l.write_all(b).expect("write");
        l.flush().expect("flush");
    }
}

fn print_mode(threads: u64, per: u64, seed: u64) {
    let barrier = Arc::new(Barrier::new(threads as usize));
    let hs: Vec<_> = (0..threads)
        .map(|tid| {
            let barrier = barrier.clone();
            std::thread::spawn(move || {
                barrier.wait();
                for seq in 0..per {
                    let [f0, f1, f2, f3, f4] = record_fragments(tid, seq);
                    let d = mix(seed ^ (tid << 32) ^ seq);
                    let (s0, s1, s2, s3, s4) = (Slow(&f0, d), Slow(&f1, d >> 8), Slow(&f2, d >> 16), Slow(&f3, d >> 24), Slow(&f4, d >> 32));
                    match (seq + tid) % 13 {
                        12 => {
                            // a format string without arguments that carries its own escape sequences (the record cannot
                            // name the thread: the checker counts these lines instead); keep in sync with vlib/c19.py::LITERALS
                            let _ = match tid % 4 {
                                0 => write!(anstream::stdout(), "<L0:\x1b[1;31merror\x1b[0m: literal zero \x1b[4mdone\x1b[0m>\n"),
                                1 => write!(anstream::stdout(), "<L1:\x1b[32mok\x1b[0m literal one, no arguments at all>\n"),
                                2 => write!(anstream::stdout(), "<L2:plain literal two>\n"),
                                _ => write!(anstream::stdout(), "<L3:\x1b[38;5;208mliteral\x1b[0m \x1b[1mthree\x1b[0m \x1b[3mwith\x1b[0m \x1b[4mmany\x1b[0m \x1b[7mpieces\x1b[0m>\n"),
                            };
                        }
                        8 => {
                            // the process-wide handle behind `&mut`
                            let mut so = std::io::stdout();
                            let mut s = anstream::AutoStream::auto(&mut so);
                            let _ = write!(s, "{s0}{s1}{s2}{s3}{s4}\n");
                        }
                        9 => {
                            // ... and behind a Box
                            let mut s = anstream::AutoStream::auto(Box::new(std::io::stderr()));
                            let _ = writeln!(s, "{s0}{s1}{s2}{s3}{s4}");
                        }
                        10 => {
                            let mut s = anstream::stderr().lock();
                            let _ = write!(s, "{s0}{s1}");
                            let _ = write!(s, "{s2}{s3}{s4}\n");
                        }
                        11 => anstream::eprint!("{s0}{s1}{s2}{s3}{s4}\n"),
                        0 => anstream::print!("{s0}{s1}{s2}{s3}{s4}\n"),
                        1 => anstream::println!("{s0}{s1}{s2}{s3}{s4}"),
                        2 => anstream::eprintln!("{s0}{s1}{s2}{s3}{s4}"),
                        3 => {
                            if seq % 64 == 3 {
                                // a formatted record far larger than any internal buffer (12 000-byte body in three
                                // dawdling fragments): still one write_fmt call, still one lock acquisition
                                let (h, b, t) = long_fmt_record(tid, seq);
                                let (b0, b1, b2) = (Slow(&b[..4000], d), Slow(&b[4000..8000], d >> 8), Slow(&b[8000..], d >> 16));
                                let _ = write!(anstream::stdout(), "{h}{b0}{b1}{b2}{t}\n");
                            } else {
                                let _ = write!(anstream::stdout(), "{s0}{s1}{s2}{s3}{s4}\n");
                            }
                        }
                        4 => {
                            // every fourth of these is a long record: a header line followed by a 1500-byte tail without a
                            // final newline, in ONE write_all call (std's line-buffered stdout answers such a buffer with
                            // a short write, so a stream that re-takes the lock per `write` lets another thread in)
                            let whole = if seq % 4 == 0 { long_record(tid, seq) } else { format!("{f0}{f1}{f2}{f3}{f4}\n") };
                            let _ = anstream::stdout().write_all(whole.as_bytes());
                        }
                        5 => {
                            let _ = writeln!(anstream::stderr(), "{s0}{s1}{s2}{s3}{s4}");
                        }
                        6 => {
                            let mut s = anstream::stdout();
                            let _ = s.write_fmt(format_args!("{s0}{s1}{s2}{s3}{s4}\n"));
                        }
                        _ => {
                            // explicit lock: two calls under one lock
                            let mut s = anstream::stdout().lock();
                            let _ = write!(s, "{s0}{s1}{s2}");
                            let _ = write!(s, "{s3}{s4}\n");
                        }
                    }
                }
            })
        })
        .collect();
    for h in hs {
        h.join().expect("thread");
    }
    let _ = std::io::stdout().flush();
}

static CLOCK: AtomicU64 = AtomicU64::new(1);

fn tick() -> u64 {
    CLOCK.fetch_add(1, Ordering::SeqCst)
}

fn code(c: colorchoice::ColorChoice) -> u8 {
    match c {
        colorchoice::ColorChoice::Auto => 0,
        colorchoice::ColorChoice::AlwaysAnsi => 1,
        colorchoice::ColorChoice::Always => 2,
        colorchoice::ColorChoice::Never => 3,
    }
}
const CHOICES: [colorchoice::ColorChoice; 4] = [colorchoice::ColorChoice::Auto, colorchoice::ColorChoice::AlwaysAnsi, colorchoice::ColorChoice::Always, colorchoice::ColorChoice::Never];

fn register_mode(writers: u64, readers: u64, ops: u64, seed: u64) {
    let n = writers + readers;
    let barrier = Arc::new(Barrier::new(n as usize));
    let hs: Vec<_> = (0..n)
        .map(|tid| {
            let barrier = barrier.clone();
            std::thread::spawn(move || {
                let mut log: Vec<(u64, char, u8, u64, u64)> = Vec::with_capacity(ops as usize);
                barrier.wait();
                for i in 0..ops {
                    let r = mix(seed ^ (tid << 40) ^ i);
                    if tid < writers {
                        let v = CHOICES[(r % 4) as usize];
                        let t0 = tick();
                        v.write_global();
                        let t1 = tick();
                        log.push((tid, 'w', code(v), t0, t1));
                    } else if r % 3 == 0 {
                        // the consumer of the register: the decision for a stream that is not a terminal (colour
                        // variables are removed from the environment by the driver) resolves the value it read
                        let sink: Vec<u8> = Vec::new();
                        let t0 = tick();
                        let v = anstream::AutoStream::choice(&sink);
                        let t1 = tick();
                        log.push((tid, 'd', code(v), t0, t1));
                    } else {
                        let t0 = tick();
                        let v = colorchoice::ColorChoice::global();
                        let t1 = tick();
                        log.push((tid, 'r', code(v), t0, t1));
                    }
                    if r % 7 == 0 {
                        std::thread::yield_now();
                    }
                }
                log
            })
        })
        .collect();
    let mut all = vec![];
    for h in hs {
        all.extend(h.join().expect("thread"));
    }
    let t0 = tick();
    let fin = code(colorchoice::ColorChoice::global());
    let t1 = tick();
    let out = std::io::stdout();
    let mut out = std::io::BufWriter::new(out.lock());
    for (tid, op, v, a, b) in all {
        let _ = writeln!(out, "{tid} {op} {v} {a} {b}");
    }
    let _ = writeln!(out, "{n} f {fin} {t0} {t1}");
    let _ = out.flush();
}

fn canary_race() {
    // two threads increment a plain integer without synchronisation: ThreadSanitizer / Miri must report this
    static mut COUNTER: u64 = 0;
    let hs: Vec<_> = (0..2)
        .map(|_| {
            std::thread::spawn(|| {
                for _ in 0..1000 {
                    unsafe {
                        let p = std::ptr::addr_of_mut!(COUNTER);
                        *p = (*p).wrapping_add(1);
                    }
                }
            })
        })
        .collect();
    for h in hs {
        let _ = h.join();
    }
    println!("{}", unsafe { *std::ptr::addr_of!(COUNTER) });
}

fn main() {
    let a: Vec<String> = std::env::args().collect();
    let n = |i: usize, d: u64| a.get(i).and_then(|s| s.parse().ok()).unwrap_or(d);
    match a.get(1).map(|s| s.as_str()) {
        Some("print") => print_mode(n(2, 4), n(3, 100), n(4, 1)),
        Some("register") => register_mode(n(2, 2), n(3, 2), n(4, 100), n(5, 1)),
        Some("first") => first_mode(n(2, 6), n(3, 0)),
        Some("lockseq") => lockseq_mode(),
        Some("canary-race") => canary_race(),
        _ => {
            eprintln!("usage: vh-mt print|register|canary-race ...");
            std::process::exit(2);
        }
    }
}
