//! C09 child: single-threaded; enumerates environments in-process and logs every observed decision as one JSON
//! line.  The verdict is computed offline (python) from the log against the documented decision table.
//!
//! usage: vh-env <log-file> <regular-file> <tty-path|-> <mode: full|extra> <seed>
use anstream::{AutoStream, ColorChoice};
use refmodel::json::J;
use refmodel::rng::Rng;
use std::ffi::OsString;
use std::io::{IsTerminal as _, Write};

const VARS: [&str; 6] = ["NO_COLOR", "CLICOLOR_FORCE", "CLICOLOR", "TERM", "CI", "COLORTERM"];

fn set(name: &str, v: &Option<OsString>) {
    match v {
        Some(v) => std::env::set_var(name, v),
        None => std::env::remove_var(name),
    }
}

fn jv(v: &Option<OsString>) -> J {
    match v {
        None => J::Null,
        Some(v) => {
            use std::os::unix::ffi::OsStrExt;
            // hex so that non-UTF-8 values survive the log
            J::Str(refmodel::json::hex(v.as_bytes()))
        }
    }
}

fn choice_name(c: ColorChoice) -> &'static str {
    match c {
        ColorChoice::Auto => "Auto",
        ColorChoice::AlwaysAnsi => "AlwaysAnsi",
        ColorChoice::Always => "Always",
        ColorChoice::Never => "Never",
    }
}

struct Streams {
    regular: std::fs::File,
    tty: Option<std::fs::File>,
}

thread_local! {
    /// current_choice() of `AutoStream::new(stream, ColorChoice::Auto)` for the stream being observed (set right before `one`)
    static NEW_AUTO: std::cell::Cell<ColorChoice> = const { std::cell::Cell::new(ColorChoice::Auto) };
}

const PROBE_TEXT: &str = "\x1b[1mX\x1b[0m";

extern "C" {
    fn dup(fd: i32) -> i32;
    fn dup2(old: i32, new: i32) -> i32;
    fn close(fd: i32) -> i32;
}

/// exchange what file descriptors 1 and 2 are attached to (a pager starting, output being redirected, daemonising)
fn swap_stdout_stderr() {
    unsafe {
        let saved = dup(1);
        assert!(saved >= 0 && dup2(2, 1) == 1 && dup2(saved, 2) == 2, "dup2");
        close(saved);
    }
}

static SWAPPED: std::sync::atomic::AtomicBool = std::sync::atomic::AtomicBool::new(false);
static REATTACH: std::sync::atomic::AtomicBool = std::sync::atomic::AtomicBool::new(false);

fn observe(log: &mut impl Write, st: &Streams, g: ColorChoice, env: &[Option<OsString>; 6]) {
    let mut o = J::obj();
    o.set("ev", J::s("env"));
    o.set("swapped", J::Bool(SWAPPED.load(std::sync::atomic::Ordering::Relaxed)));
    if REATTACH.load(std::sync::atomic::Ordering::Relaxed) {
        o.set("reattach", J::Bool(true));
    }
    o.set("global", J::s(choice_name(g)));
    for (i, name) in VARS.iter().enumerate() {
        o.set(name, jv(&env[i]));
    }
    // the seven probes
    let mut p = J::obj();
    p.set("clicolor", match anstyle_query::clicolor() { None => J::Null, Some(b) => J::Bool(b) });
    p.set("clicolor_force", J::Bool(anstyle_query::clicolor_force()));
    p.set("no_color", J::Bool(anstyle_query::no_color()));
    p.set("term_supports_color", J::Bool(anstyle_query::term_supports_color()));
    p.set("term_supports_ansi_color", J::Bool(anstyle_query::term_supports_ansi_color()));
    p.set("truecolor", J::Bool(anstyle_query::truecolor()));
    p.set("is_ci", J::Bool(anstyle_query::is_ci()));
    o.set("probes", p);
    o.set("global_read_back", J::s(choice_name(ColorChoice::global())));
    // decisions per stream kind
    let mut ds = vec![];
    let mut one = |kind: &str, is_term: bool, choice: ColorChoice, current: ColorChoice, new_current: ColorChoice, reported_terminal: bool, adapted: String| {
        let mut d = J::obj();
        d.set("stream", J::s(kind));
        d.set("is_terminal_std", J::Bool(is_term));
        d.set("choice", J::s(choice_name(choice)));
        d.set("auto_current_choice", J::s(choice_name(current)));
        d.set("new_global_current_choice", J::s(choice_name(new_current)));
        d.set("new_auto_current_choice", J::s(choice_name(NEW_AUTO.with(|c| c.get()))));
        d.set("stream_reports_terminal", J::Bool(reported_terminal));
        d.set("adapted", J::s(adapted));
        ds.push(d);
    };
    {
        let v: Vec<u8> = vec![];
        let c = AutoStream::choice(&v);
        let ad = anstream::_macros::to_adapted_string(&PROBE_TEXT, &v);
        let a = AutoStream::auto(v);
        let cur = a.current_choice();
        let rt = a.is_terminal();
        let n = AutoStream::new(Vec::<u8>::new(), ColorChoice::global()).current_choice();
        NEW_AUTO.with(|c| c.set(AutoStream::new(Vec::<u8>::new(), ColorChoice::Auto).current_choice()));
        one("vec", false, c, cur, n, rt, ad);
    }
    {
        let f = st.regular.try_clone().expect("clone");
        let t = f.is_terminal();
        let c = AutoStream::choice(&f);
        let ad = anstream::_macros::to_adapted_string(&PROBE_TEXT, &f);
        let a = AutoStream::auto(f);
        let cur = a.current_choice();
        let rt = a.is_terminal();
        let n = AutoStream::new(st.regular.try_clone().expect("clone"), ColorChoice::global()).current_choice();
        NEW_AUTO.with(|c| c.set(AutoStream::new(st.regular.try_clone().expect("clone"), ColorChoice::Auto).current_choice()));
        one("file", t, c, cur, n, rt, ad);
    }
    if let Some(tty) = &st.tty {
        let f = tty.try_clone().expect("clone");
        let t = f.is_terminal();
        let c = AutoStream::choice(&f);
        let ad = anstream::_macros::to_adapted_string(&PROBE_TEXT, &f);
        let a = AutoStream::auto(f);
        let cur = a.current_choice();
        let rt = a.is_terminal();
        let n = AutoStream::new(tty.try_clone().expect("clone"), ColorChoice::global()).current_choice();
        NEW_AUTO.with(|c| c.set(AutoStream::new(tty.try_clone().expect("clone"), ColorChoice::Auto).current_choice()));
        one("ttyfile", t, c, cur, n, rt, ad);
    }
    {
        let s = std::io::stdout();
        let t = s.is_terminal();
        let c = AutoStream::choice(&s);
        let ad = anstream::_macros::to_adapted_string(&PROBE_TEXT, &s);
        let a = anstream::stdout();
        let cur = a.current_choice();
        let rt = a.is_terminal();
        let n = AutoStream::new(std::io::stdout(), ColorChoice::global()).current_choice();
        NEW_AUTO.with(|c| c.set(AutoStream::new(std::io::stdout(), ColorChoice::Auto).current_choice()));
        one("stdout", t, c, cur, n, rt, ad);
        let l = std::io::stdout().lock();
        let c2 = AutoStream::choice(&l);
        drop(l);
        if c2 != c {
            NEW_AUTO.with(|c| c.set(ColorChoice::Auto));
            one("stdout-lock-disagrees", t, c2, cur, n, rt, String::new());
        }
    }
    {
        // the lock guards, a boxed writer and a borrowed file are stream kinds of their own
        let l = std::io::stdout().lock();
        let t = l.is_terminal();
        let c = AutoStream::choice(&l);
        let ad = anstream::_macros::to_adapted_string(&PROBE_TEXT, &l);
        drop(l);
        let a = anstream::stdout().lock();
        let (cur, rt) = (a.current_choice(), a.is_terminal());
        drop(a);
        NEW_AUTO.with(|c| c.set(ColorChoice::Auto));
        one("stdout_lock", t, c, cur, cur, rt, ad);
        let l = std::io::stderr().lock();
        let t = l.is_terminal();
        let c = AutoStream::choice(&l);
        let ad = anstream::_macros::to_adapted_string(&PROBE_TEXT, &l);
        drop(l);
        let a = anstream::stderr().lock();
        let (cur, rt) = (a.current_choice(), a.is_terminal());
        drop(a);
        NEW_AUTO.with(|c| c.set(ColorChoice::Auto));
        one("stderr_lock", t, c, cur, cur, rt, ad);
        let b: Box<dyn Write> = Box::new(Vec::<u8>::new());
        let c = AutoStream::choice(&b);
        let ad = anstream::_macros::to_adapted_string(&PROBE_TEXT, &b);
        let a = AutoStream::auto(b);
        let (cur, rt) = (a.current_choice(), a.is_terminal());
        NEW_AUTO.with(|c| c.set(ColorChoice::Auto));
        one("box_dyn", false, c, cur, cur, rt, ad);
        if let Some(tty) = &st.tty {
            let mut f = tty.try_clone().expect("clone");
            let t = f.is_terminal();
            let r: &mut std::fs::File = &mut f;
            let c = AutoStream::choice(&r);
            let ad = anstream::_macros::to_adapted_string(&PROBE_TEXT, &r);
            let a = AutoStream::auto(r);
            let (cur, rt) = (a.current_choice(), a.is_terminal());
            NEW_AUTO.with(|c| c.set(ColorChoice::Auto));
            one("mut_ttyfile", t, c, cur, cur, rt, ad);
        }
    }
    {
        let s = std::io::stderr();
        let t = s.is_terminal();
        let c = AutoStream::choice(&s);
        let ad = anstream::_macros::to_adapted_string(&PROBE_TEXT, &s);
        let a = anstream::stderr();
        let cur = a.current_choice();
        let rt = a.is_terminal();
        let n = AutoStream::new(std::io::stderr(), ColorChoice::global()).current_choice();
        NEW_AUTO.with(|c| c.set(AutoStream::new(std::io::stderr(), ColorChoice::Auto).current_choice()));
        one("stderr", t, c, cur, n, rt, ad);
    }
    o.set("decisions", J::Arr(ds));
    writeln!(log, "{}", o.to_string()).expect("log");
}

#[derive(Debug, clap::Parser)]
struct Cli {
    #[command(flatten)]
    color: colorchoice_clap::Color,
}

fn clap_events(log: &mut impl Write) {
    use clap::Parser as _;
    let argvs: Vec<Vec<&str>> = vec![
        vec!["prog"],
        vec!["prog", "--color", "auto"],
        vec!["prog", "--color", "always"],
        vec!["prog", "--color", "never"],
        vec!["prog", "--color=always"],
        vec!["prog", "--color=never"],
        vec!["prog", "--color", "sometimes"],
        vec!["prog", "--color", "ALWAYS"],
        vec!["prog", "--color", "always-ansi"],
        vec!["prog", "--color"],
    ];
    for argv in argvs {
        let mut o = J::obj();
        o.set("ev", J::s("clap"));
        o.set("argv", J::Arr(argv.iter().map(|s| J::s(*s)).collect()));
        match Cli::try_parse_from(argv.iter()) {
            Ok(cli) => {
                o.set("parsed", J::Bool(true));
                o.set("as_choice", J::s(choice_name(cli.color.as_choice())));
                ColorChoice::Auto.write_global();
                // start from a value different from the expected one so that a missing store is visible
                let probe = if cli.color.as_choice() == ColorChoice::Never { ColorChoice::Always } else { ColorChoice::Never };
                probe.write_global();
                cli.color.write_global();
                o.set("global_after_write_global", J::s(choice_name(ColorChoice::global())));
                ColorChoice::Auto.write_global();
            }
            Err(_) => {
                o.set("parsed", J::Bool(false));
            }
        }
        writeln!(log, "{}", o.to_string()).expect("log");
    }
}

fn os(s: &str) -> Option<OsString> {
    Some(OsString::from(s))
}

/// the text handed to the formatter in pieces of at most three bytes (an escape sequence assembled by `write!`)
/// (mode 1: every character through `write_char`; mode 2: strings and characters in turn)
struct Pieces<'a>(&'a str, u8);

impl std::fmt::Display for Pieces<'_> {
    fn fmt(&self, f: &mut std::fmt::Formatter<'_>) -> std::fmt::Result {
        use std::fmt::Write as _;
        let s = self.0;
        if self.1 == 1 {
            for c in s.chars() {
                f.write_char(c)?;
            }
            return Ok(());
        }
        if self.1 == 2 {
            let mut buf = [0u8; 4];
            for (k, c) in s.chars().enumerate() {
                if k % 3 == 0 {
                    f.write_str(c.encode_utf8(&mut buf))?;
                } else {
                    f.write_char(c)?;
                }
            }
            return Ok(());
        }
        let mut i = 0;
        while i < s.len() {
            let mut j = (i + 3).min(s.len());
            while !s.is_char_boundary(j) {
                j += 1;
            }
            f.write_str(&s[i..j])?;
            i = j;
        }
        Ok(())
    }
}

/// a value whose Display emits its text and then panics (the caller catches the panic and goes on)
struct PanicAfter<'a>(&'a str);

impl std::fmt::Display for PanicAfter<'_> {
    fn fmt(&self, f: &mut std::fmt::Formatter<'_>) -> std::fmt::Result {
        f.write_str(self.0)?;
        panic!("Display impl gives up")
    }
}

struct FailAfter<'a>(&'a str);

impl std::fmt::Display for FailAfter<'_> {
    fn fmt(&self, f: &mut std::fmt::Formatter<'_>) -> std::fmt::Result {
        f.write_str(self.0)?;
        Err(std::fmt::Error)
    }
}

/// `to_adapted_string(text, stream)` against the stream it stands in for: whatever the detection decides for the
/// stream, the helper renders the text like `AutoStream::new(Vec, that choice)` does (texts with escapes, with DEL / C0
/// controls only, plain, long).  One JSON line per disagreement and a summary line.
fn adapted_mode(log: &mut impl Write, seed: u64, n: u64) {
    use refmodel::gen;
    let sink: Vec<u8> = vec![];
    let mut evaluations = 0u64;
    let mut bad = 0u64;
    let mut by_choice = [0u64; 4];
    for i in 0..n {
        let mut rng = Rng::new(seed, 0xC08_A000_0000 + i);
        let bytes = match i % 5 {
            0 => gen::gen_sgr_text(&mut rng, gen::SgrOpts::default(), 12, &["\x7f", "\u{e9}", "\t"]),
            1 => {
                let mut d = gen::gen_sgr_text(&mut rng, gen::SgrOpts::default(), 5, &["\x7f", "\x7f\x7f", "\x08", "\x07"]);
                d.retain(|b| *b != 0x1b);
                d
            }
            2 => b"rub\x7fout\n".to_vec(),
            3 => gen::gen_stream(&mut rng, 300, true),
            _ => gen::threshold_document(gen::long_len(&mut rng, 4096), (i % 4) as u8, i % 2 == 0),
        };
        let Ok(text) = String::from_utf8(bytes) else { continue };
        for g in [ColorChoice::Never, ColorChoice::Always, ColorChoice::AlwaysAnsi, ColorChoice::Auto] {
            g.write_global();
            let decided = AutoStream::choice(&sink);
            let got = anstream::_macros::to_adapted_string(&text, &sink);
            let mut reference = AutoStream::new(Vec::<u8>::new(), decided);
            let _ = write!(reference, "{text}");
            let want = String::from_utf8_lossy(&reference.into_inner()).into_owned();
            evaluations += 1;
            by_choice[match decided {
                ColorChoice::Auto => 0,
                ColorChoice::AlwaysAnsi => 1,
                ColorChoice::Always => 2,
                ColorChoice::Never => 3,
            }] += 1;
            // a value whose Display emits its text and then reports an error: what was delivered before the error stays
            // (only where the stream itself survives such a value: std's write_fmt panics on it in pass-through mode)
            // a Display impl that panics half way through (caught by the caller): the next call on this thread renders
            // its own text only
            let (got, want) = if got == want && i % 20 == 6 {
                let pa = PanicAfter(&text);
                let prev = std::panic::take_hook();
                std::panic::set_hook(Box::new(|_| {}));
                let _ = std::panic::catch_unwind(std::panic::AssertUnwindSafe(|| anstream::_macros::to_adapted_string(&pa, &sink)));
                std::panic::set_hook(prev);
                let g2 = anstream::_macros::to_adapted_string(&"after \x1b[1mthe\x1b[0m panic", &sink);
                let mut r2 = AutoStream::new(Vec::<u8>::new(), decided);
                let _ = write!(r2, "{}", "after \x1b[1mthe\x1b[0m panic");
                (g2, String::from_utf8_lossy(&r2.into_inner()).into_owned())
            } else {
                (got, want)
            };
            let (got, want) = if got == want && i % 3 == 1 {
                // the same text arriving in small fragments
                let pc = Pieces(&text, ((i / 3) % 3) as u8);
                let g2 = anstream::_macros::to_adapted_string(&pc, &sink);
                let mut r2 = AutoStream::new(Vec::<u8>::new(), decided);
                let _ = write!(r2, "{pc}");
                (g2, String::from_utf8_lossy(&r2.into_inner()).into_owned())
            } else if decided == ColorChoice::Never && i % 3 == 0 {
                let fa = FailAfter(&text);
                let g2 = anstream::_macros::to_adapted_string(&fa, &sink);
                let mut r2 = AutoStream::new(Vec::<u8>::new(), decided);
                let _ = write!(r2, "{fa}");
                let w2 = String::from_utf8_lossy(&r2.into_inner()).into_owned();
                if got == want {
                    (g2, w2)
                } else {
                    (got, want)
                }
            } else {
                (got, want)
            };
            if got != want {
                bad += 1;
                if bad <= 5 {
                    let mut o = J::obj();
                    o.set("ev", J::s("adapted-mismatch"));
                    o.set("global", J::s(choice_name(g)));
                    o.set("decided", J::s(choice_name(decided)));
                    o.set("text_hex", J::s(refmodel::json::hex(text.as_bytes())));
                    o.set("got", J::s(refmodel::json::show(&got.as_bytes()[..got.len().min(160)])));
                    o.set("want", J::s(refmodel::json::show(&want.as_bytes()[..want.len().min(160)])));
                    let _ = writeln!(log, "{}", o.to_string());
                }
            }
        }
    }
    ColorChoice::Auto.write_global();
    let mut o = J::obj();
    o.set("ev", J::s("adapted-summary"));
    o.set("evaluations", J::UInt(evaluations));
    o.set("mismatches", J::UInt(bad));
    o.set("by_decided_choice_auto_alwaysansi_always_never", J::Arr(by_choice.iter().map(|c| J::UInt(*c)).collect()));
    let _ = writeln!(log, "{}", o.to_string());
    let _ = log.flush();
}

fn main() {
    let args: Vec<String> = std::env::args().collect();
    let mut log = std::io::BufWriter::new(std::fs::File::create(&args[1]).expect("log file"));
    let regular = std::fs::OpenOptions::new().create(true).write(true).truncate(true).open(&args[2]).expect("regular file");
    let tty = if args[3] == "-" { None } else { std::fs::OpenOptions::new().write(true).open(&args[3]).ok() };
    let mode = args.get(4).map(|s| s.as_str()).unwrap_or("full");
    let seed: u64 = args.get(5).and_then(|s| s.parse().ok()).unwrap_or(1);
    if mode == "adapted" {
        for v in VARS {
            std::env::remove_var(v);
        }
        adapted_mode(&mut log, seed, args.get(6).and_then(|s| s.parse().ok()).unwrap_or(2000));
        return;
    }
    let st = Streams { regular, tty };
    for v in VARS {
        std::env::remove_var(v);
    }
    let globals = [ColorChoice::Auto, ColorChoice::AlwaysAnsi, ColorChoice::Always, ColorChoice::Never];
    let v4 = [None, os(""), os("0"), os("1")];
    let term = [None, os(""), os("dumb"), os("xterm-256color")];
    let ci = [None, os(""), os("true")];
    if mode == "full" {
        for g in globals {
            g.write_global();
            for nc in &v4 {
                set("NO_COLOR", nc);
                for cf in &v4 {
                    set("CLICOLOR_FORCE", cf);
                    for cc in &v4 {
                        set("CLICOLOR", cc);
                        for t in &term {
                            set("TERM", t);
                            for c in &ci {
                                set("CI", c);
                                observe(&mut log, &st, g, &[nc.clone(), cf.clone(), cc.clone(), t.clone(), c.clone(), None]);
                            }
                        }
                    }
                }
            }
        }
        ColorChoice::Auto.write_global();
        for v in VARS {
            std::env::remove_var(v);
        }
        // COLORTERM separately
        for ct in [None, os(""), os("truecolor"), os("24bit"), os("yes"), os("TRUECOLOR"), os("truecolor "), os("8bit")] {
            set("COLORTERM", &ct);
            observe(&mut log, &st, ColorChoice::Auto, &[None, None, None, None, None, ct.clone()]);
        }
        std::env::remove_var("COLORTERM");
        // TERM names beyond the four of the cross product: only the exact value "dumb" switches colour off, on every
        // platform-independent path (names that mean something special on another platform included)
        for name in ["cygwin", "msys", "xterm", "linux", "vt100", "ansi", "screen", "tmux-256color", "xterm-kitty", "alacritty", "unknown", "Dumb", "DUMB", "dumb ", " dumb", "dumb\n", "dumber", "du", "0", "xterm-mono", "emacs", "eterm-color", "rxvt-unicode-256color", "wezterm", "foot"] {
            let t = os(name);
            set("TERM", &t);
            for (cc, c) in [(None, None), (os("0"), None), (None, os("true"))] {
                set("CLICOLOR", &cc);
                set("CI", &c);
                observe(&mut log, &st, ColorChoice::Auto, &[None, None, cc.clone(), t.clone(), c.clone(), None]);
            }
        }
        for v in VARS {
            std::env::remove_var(v);
        }
        clap_events(&mut log);
        // the standard streams are re-attached while the process runs: the decision follows what the descriptor is
        // attached to now (swap, swap back, swap again; a few environments in which the terminal test matters)
        ColorChoice::Auto.write_global();
        REATTACH.store(true, std::sync::atomic::Ordering::Relaxed);
        for round in 0..3 {
            swap_stdout_stderr();
            SWAPPED.store(round % 2 == 0, std::sync::atomic::Ordering::Relaxed);
            for (t, cc, c) in [(os("xterm-256color"), None, None), (None, os("1"), None), (os("dumb"), None, os("true")), (os("dumb"), None, None)] {
                set("TERM", &t);
                set("CLICOLOR", &cc);
                set("CI", &c);
                observe(&mut log, &st, ColorChoice::Auto, &[None, None, cc.clone(), t.clone(), c.clone(), None]);
            }
        }
        swap_stdout_stderr();
        SWAPPED.store(false, std::sync::atomic::Ordering::Relaxed);
        for v in VARS {
            std::env::remove_var(v);
        }
    } else {
        // seeded unusual values: long, non-ASCII, non-UTF-8, whitespace, look-alikes
        use std::os::unix::ffi::OsStringExt;
        let pool: Vec<Option<OsString>> = vec![
            None,
            os(""),
            os("0"),
            os("1"),
            os("00"),
            os(" 0"),
            os("0 "),
            os("false"),
            os("no"),
            os("dumb"),
            os("DUMB"),
            os("dumb "),
            os("xterm"),
            os("\u{e9}"),
            os("\u{ff10}"),
            Some(OsString::from_vec(vec![0xff, 0xfe])),
            Some(OsString::from_vec(vec![b'0', 0xff])),
            os(&"x".repeat(10_000)),
            os("truecolor"),
            os("24bit"),
        ];
        let n: u64 = args.get(6).and_then(|s| s.parse().ok()).unwrap_or(2000);
        for i in 0..n {
            let mut rng = Rng::new(seed, 0xC09_0000_0000 + i);
            let g = globals[if rng.chance(3, 4) { 0 } else { rng.below(4) as usize }];
            g.write_global();
            let mut env: [Option<OsString>; 6] = Default::default();
            for (k, name) in VARS.iter().enumerate() {
                env[k] = if rng.chance(1, 3) { None } else { rng.pick(&pool).clone() };
                set(name, &env[k]);
            }
            observe(&mut log, &st, g, &env);
        }
        ColorChoice::Auto.write_global();
    }
    log.flush().expect("flush");
}
