import json,sys
d=json.load(open(sys.argv[1]))
print(d['check'], 'evals',d['evaluations'], 'distinct',d['distinct_nontrivial'], {k:v for k,v in d['counters'].items()})
for k,v in d['arrays'].items(): print(' ',k, v if len(v)<40 else sum(1 for x in v if x))
for v in d['violations']:
    print(' VIOL', v['sig'], v['count'])
    for e in v['examples'][:3]: print('    ', e['msg'][:400])
