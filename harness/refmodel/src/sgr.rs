//! Reference SGR interpreter (ECMA-48 8.3.117 + the xterm/kitty extensions the style type can hold).
use crate::vt::Ev;

#[derive(Debug, Clone, Copy, PartialEq, Eq, Hash, PartialOrd, Ord)]
pub enum Col {
    /// 16-colour palette, 0..8 normal, 8..16 bright
    P16(u8),
    /// 256-colour palette index
    Idx(u8),
    Rgb(u8, u8, u8),
}

impl Col {
    /// a terminal cannot tell index n < 16 from palette colour n
    pub fn normalized(self) -> Col {
        match self {
            Col::Idx(n) if n < 16 => Col::P16(n),
            c => c,
        }
    }
}

pub mod fx {
    pub const BOLD: u16 = 1 << 0;
    pub const DIM: u16 = 1 << 1;
    pub const ITALIC: u16 = 1 << 2;
    pub const UNDERLINE: u16 = 1 << 3;
    pub const DOUBLE_UNDERLINE: u16 = 1 << 4;
    pub const CURLY_UNDERLINE: u16 = 1 << 5;
    pub const DOTTED_UNDERLINE: u16 = 1 << 6;
    pub const DASHED_UNDERLINE: u16 = 1 << 7;
    pub const BLINK: u16 = 1 << 8;
    pub const INVERT: u16 = 1 << 9;
    pub const HIDDEN: u16 = 1 << 10;
    pub const STRIKE: u16 = 1 << 11;
    pub const ALL_UNDERLINES: u16 = UNDERLINE | DOUBLE_UNDERLINE | CURLY_UNDERLINE | DOTTED_UNDERLINE | DASHED_UNDERLINE;
    pub const NAMES: [&str; 12] = [
        "bold", "dim", "italic", "underline", "double_underline", "curly_underline", "dotted_underline",
        "dashed_underline", "blink", "invert", "hidden", "strikethrough",
    ];
}

#[derive(Debug, Clone, Copy, PartialEq, Eq, Hash, Default)]
pub struct SgrState {
    pub fg: Option<Col>,
    pub bg: Option<Col>,
    pub ul: Option<Col>,
    pub fx: u16,
}

impl SgrState {
    pub fn normalized(mut self) -> Self {
        self.fg = self.fg.map(Col::normalized);
        self.bg = self.bg.map(Col::normalized);
        self.ul = self.ul.map(Col::normalized);
        self
    }
    pub fn describe(&self) -> String {
        let mut names = vec![];
        for (i, n) in fx::NAMES.iter().enumerate() {
            if self.fx & (1 << i) != 0 {
                names.push(*n);
            }
        }
        format!("fg={:?} bg={:?} ul={:?} fx=[{}]", self.fg, self.bg, self.ul, names.join(","))
    }
}

/// How the underline-style codes combine.
#[derive(Debug, Clone, Copy, PartialEq, Eq)]
pub enum UlMode {
    /// each rendered code is its own flag (used to read back what `anstyle::Style` renders:
    /// 4, 21, 4:3, 4:4, 4:5 set their own bit; nothing clears another underline bit)
    Flags,
    /// `4:n` selects style n and clears plain underline (the reading the adapter implements);
    /// generators never select two different styles in one reset epoch, so this coincides with a
    /// single-valued terminal
    Select,
}

#[derive(Debug, Clone)]
pub struct RefSgr {
    pub s: SgrState,
    pub mode: UlMode,
    /// number of SGR sequences applied
    pub applied: u64,
    /// `4:n` with an underline style the type cannot express (n >= 6): false = the code changes nothing,
    /// true = it is read as plain underline.  The statement allows both readings; callers that care try both.
    pub unknown_underline_is_plain: bool,
}

impl RefSgr {
    pub fn new(mode: UlMode) -> Self {
        RefSgr { s: SgrState::default(), mode, applied: 0, unknown_underline_is_plain: false }
    }

    /// Returns true when the event was an SGR sequence (CSI ... m without private marker / intermediates).
    pub fn on_event(&mut self, e: &Ev) -> bool {
        if let Ev::Csi { params, inter, ignore, fin } = e {
            if *fin == b'm' && inter.is_empty() && !*ignore {
                self.apply(params);
                self.applied += 1;
                return true;
            }
        }
        false
    }

    fn set_col(&mut self, target: u16, c: Col) {
        match target {
            38 => self.s.fg = Some(c),
            48 => self.s.bg = Some(c),
            _ => self.s.ul = Some(c),
        }
    }

    fn underline_style(&mut self, n: u16) {
        use fx::*;
        match self.mode {
            UlMode::Flags => match n {
                0 => self.s.fx &= !ALL_UNDERLINES,
                1 => self.s.fx |= UNDERLINE,
                2 => self.s.fx |= DOUBLE_UNDERLINE,
                3 => self.s.fx |= CURLY_UNDERLINE,
                4 => self.s.fx |= DOTTED_UNDERLINE,
                5 => self.s.fx |= DASHED_UNDERLINE,
                _ if self.unknown_underline_is_plain => self.s.fx |= UNDERLINE,
                _ => {}
            },
            UlMode::Select => match n {
                0 => self.s.fx &= !UNDERLINE,
                1 => self.s.fx |= UNDERLINE,
                2 => self.s.fx = (self.s.fx & !UNDERLINE) | DOUBLE_UNDERLINE,
                3 => self.s.fx = (self.s.fx & !UNDERLINE) | CURLY_UNDERLINE,
                4 => self.s.fx = (self.s.fx & !UNDERLINE) | DOTTED_UNDERLINE,
                5 => self.s.fx = (self.s.fx & !UNDERLINE) | DASHED_UNDERLINE,
                _ if self.unknown_underline_is_plain => self.s.fx |= UNDERLINE,
                _ => {}
            },
        }
    }

    /// `params`: groups of numbers; a group with more than one number came from ':' sub-parameters.
    pub fn apply(&mut self, params: &[Vec<u16>]) {
        use fx::*;
        let mut i = 0;
        while i < params.len() {
            let g = &params[i];
            i += 1;
            let code = g[0];
            if g.len() > 1 {
                // sub-parameter form: the whole attribute is in this group
                match code {
                    4 => self.underline_style(g[1]),
                    38 | 48 | 58 => match g[1] {
                        5 if g.len() >= 3 && g[2] <= 255 => self.set_col(code, Col::Idx(g[2] as u8)),
                        2 if g.len() == 5 && g[2] <= 255 && g[3] <= 255 && g[4] <= 255 => {
                            self.set_col(code, Col::Rgb(g[2] as u8, g[3] as u8, g[4] as u8))
                        }
                        _ => {}
                    },
                    _ => {}
                }
                continue;
            }
            match code {
                0 => self.s = SgrState::default(),
                1 => self.s.fx |= BOLD,
                2 => self.s.fx |= DIM,
                3 => self.s.fx |= ITALIC,
                4 => self.s.fx |= UNDERLINE,
                5 | 6 => self.s.fx |= BLINK,
                7 => self.s.fx |= INVERT,
                8 => self.s.fx |= HIDDEN,
                9 => self.s.fx |= STRIKE,
                21 => self.s.fx |= DOUBLE_UNDERLINE,
                22 => self.s.fx &= !(BOLD | DIM),
                23 => self.s.fx &= !ITALIC,
                24 => self.s.fx &= !ALL_UNDERLINES,
                25 => self.s.fx &= !BLINK,
                27 => self.s.fx &= !INVERT,
                28 => self.s.fx &= !HIDDEN,
                29 => self.s.fx &= !STRIKE,
                30..=37 => self.s.fg = Some(Col::P16((code - 30) as u8)),
                39 => self.s.fg = None,
                40..=47 => self.s.bg = Some(Col::P16((code - 40) as u8)),
                49 => self.s.bg = None,
                59 => self.s.ul = None,
                90..=97 => self.s.fg = Some(Col::P16((code - 90 + 8) as u8)),
                100..=107 => self.s.bg = Some(Col::P16((code - 100 + 8) as u8)),
                38 | 48 | 58 => {
                    // following-parameter form
                    let single = |k: usize| -> Option<u16> {
                        params.get(k).and_then(|g| if g.len() == 1 { Some(g[0]) } else { None })
                    };
                    match single(i) {
                        Some(5) => {
                            if let Some(n) = single(i + 1) {
                                if n <= 255 {
                                    self.set_col(code, Col::Idx(n as u8));
                                }
                                i += 2;
                            } else {
                                i = params.len();
                            }
                        }
                        Some(2) => {
                            if let (Some(r), Some(g), Some(b)) = (single(i + 1), single(i + 2), single(i + 3)) {
                                if r <= 255 && g <= 255 && b <= 255 {
                                    self.set_col(code, Col::Rgb(r as u8, g as u8, b as u8));
                                }
                                i += 4;
                            } else {
                                i = params.len();
                            }
                        }
                        _ => {
                            // malformed extended colour: generators do not produce this
                            i = params.len();
                        }
                    }
                }
                _ => {}
            }
        }
    }
}

/// Interpret a byte stream: returns (char, state-in-effect) for every visible character plus the final state.
pub fn interpret(bytes: &[u8], mode: UlMode) -> (Vec<(char, SgrState)>, SgrState) {
    let ev = crate::vt::parse(bytes, crate::vt::Policy::Consume);
    interpret_events(&ev, mode)
}

pub fn interpret_events(ev: &[Ev], mode: UlMode) -> (Vec<(char, SgrState)>, SgrState) {
    interpret_events_with(ev, mode, false)
}

/// The second reading of an inexpressible underline style (`4:n`, n >= 6): plain underline.
pub fn interpret_alt(bytes: &[u8], mode: UlMode) -> (Vec<(char, SgrState)>, SgrState) {
    let ev = crate::vt::parse(bytes, crate::vt::Policy::Consume);
    interpret_events_with(&ev, mode, true)
}

pub fn interpret_events_with(ev: &[Ev], mode: UlMode, unknown_underline_is_plain: bool) -> (Vec<(char, SgrState)>, SgrState) {
    let mut sgr = RefSgr::new(mode);
    sgr.unknown_underline_is_plain = unknown_underline_is_plain;
    let mut out = vec![];
    for e in ev {
        match e {
            Ev::Print(c) => out.push((*c, sgr.s)),
            Ev::Execute(b) if crate::vt::is_ws_control(*b) => out.push((*b as char, sgr.s)),
            e => {
                sgr.on_event(e);
            }
        }
    }
    (out, sgr.s)
}
