//! Workload generators: class alphabets, bounded-exhaustive enumeration, grammar streams, chunkers.
use crate::rng::Rng;

/// One representative of every byte class the VT state table distinguishes, plus digits/separators and
/// UTF-8 leads / continuations (38 bytes of the prototype + FF CR).
pub const BYTES40: [u8; 40] = [
    0x00, 0x07, 0x09, 0x0a, 0x0c, 0x0d, 0x18, 0x1a, 0x1b, 0x1c, 0x20, 0x2f, b'0', b'9', b':', b';', b'<', b'?', b'@', b'P',
    b'X', b'[', b'\\', b']', b'^', b'_', b'a', b'm', 0x7e, 0x7f, 0x80, 0x90, 0x9c, 0xa0, 0xc2, 0xe0, 0xed, 0xf0, 0xf4,
    0xf5,
];

/// 20-byte sub-alphabet for one level deeper enumeration.
pub const BYTES20: [u8; 20] = [
    0x07, 0x0a, 0x18, 0x1b, 0x20, b'1', b':', b';', b'?', b'P', b'X', b'[', b'\\', b']', b'm', 0x7f, 0x9c, 0xa9, 0xc3,
    0xe2,
];

/// Valid-UTF-8 analogue (each unit is one character).  U+071C and U+2705 contain byte 0x9C (8-bit ST).
pub const CHARS27: [&str; 27] = [
    "\0", "\x07", "\t", "\n", "\x18", "\x1b", " ", "0", ";", "?", "@", "P", "X", "[", "\\", "]", "^", "a", "m", "~",
    "\x7f", "\u{80}", "\u{9c}", "\u{e9}", "\u{71c}", "\u{2705}", "\u{1f600}",
];

/// number of strings of length 0..=max_len over k units
pub fn enum_count(k: u64, max_len: u32) -> u64 {
    let mut total = 0u64;
    let mut p = 1u64;
    for _ in 0..=max_len {
        total += p;
        p *= k;
    }
    total
}

/// Decode the idx-th string (shortlex order) into unit indices.
pub fn enum_decode(mut idx: u64, k: u64, out: &mut Vec<usize>) {
    out.clear();
    let mut len = 0u32;
    let mut p = 1u64;
    while idx >= p {
        idx -= p;
        p *= k;
        len += 1;
    }
    for _ in 0..len {
        out.push((idx % k) as usize);
        idx /= k;
    }
}

/// Call `f` with every string of up to `max_len` units for the indices belonging to this shard.
pub fn for_each_string<F: FnMut(&[u8], &[usize])>(units: &[&[u8]], max_len: u32, shard: u64, nshards: u64, mut f: F) {
    let k = units.len() as u64;
    let total = enum_count(k, max_len);
    let mut digits = Vec::new();
    let mut buf = Vec::new();
    let mut idx = shard;
    while idx < total {
        enum_decode(idx, k, &mut digits);
        buf.clear();
        for &d in &digits {
            buf.extend_from_slice(units[d]);
        }
        f(&buf, &digits);
        idx += nshards;
    }
}

pub fn byte_units(alpha: &'static [u8]) -> Vec<&'static [u8]> {
    (0..alpha.len()).map(|i| &alpha[i..i + 1]).collect()
}
pub fn char_units(alpha: &'static [&'static str]) -> Vec<&'static [u8]> {
    alpha.iter().map(|s| s.as_bytes()).collect()
}

// ------------------------------------------------------------------------------------------------
// text pieces

const TEXT_CHARS: &[&str] = &[
    "a", "b", "Z", "0", "7", " ", " ", ".", "-", "_", "m", "[", "]", ";", ":", "?", "\\", "'", "\"", "&", "<", ">", "\u{e9}",
    "\u{df}", "\u{3a9}", "\u{6f22}", "\u{5b57}", "\u{1f600}", "\u{2705}", "\u{71c}", "\u{200b}", "\u{301}", "\u{80}",
    "\u{9c}", "\u{a0}", "\u{ffff}", "\u{10ffff}", "\u{7ff}", "\u{800}", "\u{d7ff}", "\u{e000}", "\u{feff}", "\u{fdd0}", "\u{1fffe}", "\u{fffd}",
    "\u{dc}",
];

pub fn push_text(rng: &mut Rng, out: &mut Vec<u8>, max_chars: u64) {
    let n = rng.range(1, max_chars.max(1));
    for _ in 0..n {
        out.extend_from_slice(rng.pick(TEXT_CHARS).as_bytes());
    }
}

fn push_number(rng: &mut Rng, out: &mut Vec<u8>) {
    match rng.below(10) {
        0 => {}                                                          // empty parameter
        1 => out.extend_from_slice(b"0"),
        2 => out.extend_from_slice(rng.range(0, 9).to_string().as_bytes()),
        3 => out.extend_from_slice(rng.range(0, 255).to_string().as_bytes()),
        4 => out.extend_from_slice(rng.range(65530, 65540).to_string().as_bytes()),
        5 => {
            // 1..25 digits
            let n = rng.range(1, 25);
            for _ in 0..n {
                out.push(b'0' + rng.below(10) as u8);
            }
        }
        6 => {
            // leading zeros, sometimes a lot of them (the value is what counts, not the number of digits)
            let z = if rng.chance(1, 3) { rng.range(4, 24) } else { 3 };
            for _ in 0..z {
                out.push(b'0');
            }
            out.extend_from_slice(rng.range(0, 300).to_string().as_bytes());
        }
        _ => out.extend_from_slice(rng.range(0, 120).to_string().as_bytes()),
    }
}

fn push_params(rng: &mut Rng, out: &mut Vec<u8>, max_params: u64) {
    let n = match rng.below(8) {
        0 => rng.range(30, max_params.max(30)),
        1 => 0,
        _ => rng.range(0, 6),
    };
    for i in 0..n {
        if i > 0 {
            out.push(if rng.chance(1, 4) { b':' } else { b';' });
        }
        push_number(rng, out);
    }
    if n > 0 && rng.chance(1, 10) {
        out.push(b';');
    }
}

const C0_INSIDE: [u8; 10] = [0x09, 0x0a, 0x0c, 0x0d, 0x00, 0x07, 0x08, 0x0b, 0x1c, 0x1f];

fn maybe_c0(rng: &mut Rng, out: &mut Vec<u8>) {
    if rng.chance(1, 12) {
        out.push(*rng.pick(&C0_INSIDE));
    }
}

fn push_csi(rng: &mut Rng, out: &mut Vec<u8>) {
    out.extend_from_slice(b"\x1b[");
    maybe_c0(rng, out);
    if rng.chance(1, 5) {
        out.push(*rng.pick(b"<=>?"));
    }
    push_params(rng, out, 40);
    maybe_c0(rng, out);
    if rng.chance(1, 20) {
        // private marker in the middle -> csi ignore
        out.push(*rng.pick(b"<=>?"));
        push_params(rng, out, 3);
    }
    let ni = if rng.chance(1, 4) { rng.range(1, 4) } else { 0 };
    for _ in 0..ni {
        out.push(rng.range(0x20, 0x2f) as u8);
    }
    if ni > 0 && rng.chance(1, 10) {
        // parameter byte after intermediate -> csi ignore
        out.push(b'5');
    }
    maybe_c0(rng, out);
    if rng.chance(1, 15) {
        return; // unterminated
    }
    if rng.chance(1, 2) {
        out.push(b'm');
    } else {
        out.push(rng.range(0x40, 0x7e) as u8);
    }
}

fn push_osc_payload(rng: &mut Rng, out: &mut Vec<u8>) {
    let fields = if rng.chance(1, 6) { rng.range(14, 20) } else { rng.range(0, 4) };
    for i in 0..fields {
        if i > 0 {
            out.push(b';');
        }
        let n = rng.range(0, 6);
        for _ in 0..n {
            match rng.below(6) {
                0 => out.extend_from_slice(rng.pick(TEXT_CHARS).as_bytes()),
                1 => out.push(rng.range(0x80, 0xff) as u8),
                _ => out.push(rng.range(0x20, 0x7e) as u8),
            }
        }
    }
}

fn push_terminator(rng: &mut Rng, out: &mut Vec<u8>) {
    match rng.below(8) {
        0 => out.push(0x07),
        1 | 2 => out.extend_from_slice(b"\x1b\\"),
        3 => out.push(0x9c),
        4 => out.push(0x18),
        5 => out.push(0x1a),
        6 => {} // unterminated
        _ => out.push(0x07),
    }
}

fn push_osc(rng: &mut Rng, out: &mut Vec<u8>) {
    out.extend_from_slice(b"\x1b]");
    push_osc_payload(rng, out);
    maybe_c0(rng, out);
    push_terminator(rng, out);
}

fn push_dcs(rng: &mut Rng, out: &mut Vec<u8>) {
    out.extend_from_slice(b"\x1bP");
    if rng.chance(1, 5) {
        out.push(*rng.pick(b"<=>?"));
    }
    push_params(rng, out, 36);
    let ni = if rng.chance(1, 4) { rng.range(1, 3) } else { 0 };
    for _ in 0..ni {
        out.push(rng.range(0x20, 0x2f) as u8);
    }
    if rng.chance(1, 12) {
        out.push(b'1'); // param after intermediate -> dcs ignore
    }
    if rng.chance(1, 12) {
        return;
    }
    out.push(rng.range(0x40, 0x7e) as u8);
    let n = rng.range(0, 8);
    for _ in 0..n {
        match rng.below(8) {
            0 => out.push(rng.below(0x18) as u8),
            1 => out.push(0x7f),
            2 => out.push(rng.range(0x80, 0xff) as u8),
            _ => out.push(rng.range(0x20, 0x7e) as u8),
        }
    }
    push_terminator(rng, out);
}

fn push_sos(rng: &mut Rng, out: &mut Vec<u8>) {
    out.push(0x1b);
    out.push(*rng.pick(b"X^_"));
    let n = rng.range(0, 6);
    for _ in 0..n {
        match rng.below(6) {
            0 => out.push(rng.below(0x18) as u8),
            1 => out.extend_from_slice(rng.pick(TEXT_CHARS).as_bytes()),
            _ => out.push(rng.range(0x20, 0x7e) as u8),
        }
    }
    push_terminator(rng, out);
}

fn push_esc(rng: &mut Rng, out: &mut Vec<u8>) {
    out.push(0x1b);
    let ni = if rng.chance(1, 2) { rng.range(1, 4) } else { 0 };
    for _ in 0..ni {
        out.push(rng.range(0x20, 0x2f) as u8);
        maybe_c0(rng, out);
    }
    if rng.chance(1, 10) {
        return;
    }
    // finals that do not open a string / CSI, most of the time
    let f = rng.range(0x30, 0x7e) as u8;
    out.push(f);
}

fn push_malformed_utf8(rng: &mut Rng, out: &mut Vec<u8>) {
    match rng.below(7) {
        0 => out.push(*rng.pick(&[0xc2u8, 0xc3, 0xdf, 0xe0, 0xe2, 0xed, 0xef, 0xf0, 0xf3, 0xf4])), // lone lead
        1 => out.extend_from_slice(&[0xe2, 0x9c]),                                                 // truncated 3-byte
        2 => out.extend_from_slice(&[0xf0, 0x9f, 0x98]),                                           // truncated 4-byte
        3 => out.push(rng.range(0x80, 0xbf) as u8),                                                // stray continuation
        4 => {
            const BAD: [&[u8]; 5] = [&[0xc0, 0xaf], &[0xe0, 0x80, 0xaf], &[0xf0, 0x80, 0x80, 0xaf], &[0xed, 0xa0, 0x80], &[0xf4, 0x90, 0x80, 0x80]];
            let b: &[u8] = *rng.pick(&BAD[..]);
            out.extend_from_slice(b);
        }
        5 => out.push(*rng.pick(&[0xc0u8, 0xc1, 0xf5, 0xf8, 0xfe, 0xff])),
        _ => {
            out.push(*rng.pick(&[0xc3u8, 0xe2, 0xf0]));
            out.push(*rng.pick(&[0x1bu8, 0x07, 0x00, 0x7f, 0x18, 0x0a, b'A', b'[']));
        }
    }
}

/// Hostile byte stream: text, every kind of sequence, controls inside sequences, C1, CAN/SUB,
/// malformed UTF-8, truncation.  `utf8_only`: leave out anything that makes the result invalid UTF-8.
pub fn gen_stream(rng: &mut Rng, max_len: usize, utf8_only: bool) -> Vec<u8> {
    let mut out = Vec::new();
    let target = match rng.below(10) {
        0 => rng.range(0, 8) as usize,
        1..=6 => rng.range(8, 200) as usize,
        _ => rng.range(200, max_len.max(201) as u64) as usize,
    };
    while out.len() < target {
        match rng.below(if utf8_only { 17 } else { 20 }) {
            0..=4 => push_text(rng, &mut out, 12),
            5..=8 => push_csi(rng, &mut out),
            9 | 10 => push_osc(rng, &mut out),
            11 => push_dcs(rng, &mut out),
            12 => push_sos(rng, &mut out),
            13 => push_esc(rng, &mut out),
            14 => out.push(*rng.pick(&C0_INSIDE)),
            15 => out.push(*rng.pick(&[0x18u8, 0x1a, 0x1b, 0x7f])),
            16 => out.extend_from_slice(rng.pick(&["\u{80}", "\u{85}", "\u{90}", "\u{9b}", "\u{9c}", "\u{9d}", "\u{9f}"]).as_bytes()),
            17 => push_malformed_utf8(rng, &mut out),
            18 => out.push(rng.range(0x80, 0x9f) as u8), // raw C1
            _ => out.push(rng.byte()),
        }
    }
    if utf8_only {
        // the sequence builders may have inserted raw high bytes (OSC/DCS payload); repair lossily
        if std::str::from_utf8(&out).is_err() {
            out = String::from_utf8_lossy(&out).into_owned().into_bytes();
        }
        if rng.chance(1, 8) && !out.is_empty() {
            // truncate at a character boundary
            let s = std::str::from_utf8(&out).unwrap();
            let mut cut = rng.below(out.len() as u64) as usize;
            while !s.is_char_boundary(cut) {
                cut -= 1;
            }
            out.truncate(cut);
        }
    } else if rng.chance(1, 8) && !out.is_empty() {
        let cut = rng.below(out.len() as u64) as usize;
        out.truncate(cut);
    }
    out
}

/// 7-bit-only variant (for the feature-configuration check): every byte >= 0x80 is folded into ASCII.
pub fn gen_stream_7bit(rng: &mut Rng, max_len: usize) -> Vec<u8> {
    let mut v = gen_stream(rng, max_len, false);
    for b in v.iter_mut() {
        if *b >= 0x80 {
            *b &= 0x7f;
        }
    }
    v
}

// ------------------------------------------------------------------------------------------------
// SGR grammar

/// Options for the SGR text generator (different properties exclude different things, DESIGN section 8).
#[derive(Clone, Copy, Debug)]
pub struct SgrOpts {
    /// allow text characters TAB / LF / CR
    pub ws: bool,
    /// mix in non-SGR sequences (other CSI, private/intermediate CSI ending in m, OSC, ESC)
    pub noise: bool,
    /// allow blink (5) — not in the C07 statement
    pub blink: bool,
    /// allow underline colour (58)
    pub ul_color: bool,
    /// extra text alphabet (e.g. XML specials)
    pub max_seq_numbers: usize,
}

impl Default for SgrOpts {
    fn default() -> Self {
        SgrOpts { ws: true, noise: true, blink: false, ul_color: true, max_seq_numbers: 32 }
    }
}

#[derive(Clone, Copy, Debug, PartialEq, Eq)]
enum Ul {
    None,
    Plain,
    Style(u8),
}

pub struct SgrGen {
    ul: Ul,
    pub opts: SgrOpts,
    long_k: u32,
    /// largest threshold for long runs (0 = never generate long runs)
    pub long_runs_up_to: usize,
}

const UNKNOWN_CODES: &[u16] = &[10, 11, 15, 20, 26, 50, 51, 53, 55, 57, 60, 65, 73, 75, 89, 98, 99, 108, 109, 200, 255, 256, 300, 1000, 65535];

impl SgrGen {
    pub fn new(opts: SgrOpts) -> Self {
        SgrGen { ul: Ul::None, opts, long_k: 0, long_runs_up_to: 0 }
    }

    fn num(rng: &mut Rng, n: u16, allow_empty_zero: bool) -> String {
        if n == 0 && allow_empty_zero && rng.chance(1, 3) {
            return String::new();
        }
        match rng.below(16) {
            0 | 1 => format!("0{n}"),
            2 | 3 => format!("000{n}"),
            4 => format!("{}{n}", "0".repeat(rng.range(4, 24) as usize)),
            _ => n.to_string(),
        }
    }

    /// One attribute group; returns its text and how many numbers it contributes.
    pub fn group(&mut self, rng: &mut Rng) -> (String, usize) {
        let n = |rng: &mut Rng, v: u16| Self::num(rng, v, false);
        loop {
            let pick = rng.below(24);
            return match pick {
                0 => {
                    self.ul = Ul::None;
                    (Self::num(rng, 0, true), 1)
                }
                1 => (n(rng, 1), 1),
                2 => (n(rng, 2), 1),
                3 => (n(rng, 3), 1),
                4 => (n(rng, 7), 1),
                5 => (n(rng, 8), 1),
                6 => (n(rng, 9), 1),
                7 => {
                    if !self.opts.blink {
                        continue;
                    }
                    (n(rng, 5), 1)
                }
                8 | 9 => {
                    // underline family
                    let want: u8 = match self.ul {
                        Ul::None => *rng.pick(&[1u8, 1, 2, 3, 4, 5]),
                        Ul::Plain => 1,
                        Ul::Style(s) => s,
                    };
                    if want == 1 {
                        if self.ul == Ul::Plain && rng.chance(1, 3) {
                            self.ul = Ul::None;
                            return (format!("{}:{}", n(rng, 4), n(rng, 0)), 2);
                        }
                        if self.ul == Ul::None && rng.chance(1, 6) {
                            return (format!("{}:{}", n(rng, 4), n(rng, 0)), 2);
                        }
                        self.ul = Ul::Plain;
                        if rng.chance(1, 2) {
                            (n(rng, 4), 1)
                        } else {
                            (format!("{}:{}", n(rng, 4), n(rng, 1)), 2)
                        }
                    } else {
                        self.ul = Ul::Style(want);
                        if want == 2 && rng.chance(1, 2) {
                            (n(rng, 21), 1)
                        } else {
                            (format!("{}:{}", n(rng, 4), n(rng, want as u16)), 2)
                        }
                    }
                }
                10 => { let v = 30 + rng.below(8) as u16; (n(rng, v), 1) },
                11 => { let v = 40 + rng.below(8) as u16; (n(rng, v), 1) },
                12 => { let v = 90 + rng.below(8) as u16; (n(rng, v), 1) },
                13 => { let v = 100 + rng.below(8) as u16; (n(rng, v), 1) },
                14 => (n(rng, 39), 1),
                15 => (n(rng, 49), 1),
                16..=19 => {
                    let target = if self.opts.ul_color { *rng.pick(&[38u16, 48, 58]) } else { *rng.pick(&[38u16, 48]) };
                    let colon = rng.chance(1, 2);
                    let sep = if colon { ":" } else { ";" };
                    if rng.chance(1, 2) {
                        let idx = match rng.below(4) {
                            0 => rng.below(16) as u16,
                            1 => *rng.pick(&[0u16, 1, 7, 8, 15, 16, 231, 232, 255]),
                            _ => rng.below(256) as u16,
                        };
                        let idx_s = Self::num(rng, idx, !colon);
                        (format!("{}{sep}{}{sep}{}", n(rng, target), n(rng, 5), idx_s), 3)
                    } else {
                        let c = |rng: &mut Rng| match rng.below(4) {
                            0 => 0u16,
                            1 => 255,
                            _ => rng.below(256) as u16,
                        };
                        let (r, g, b) = (c(rng), c(rng), c(rng));
                        (
                            format!(
                                "{}{sep}{}{sep}{}{sep}{}{sep}{}",
                                n(rng, target),
                                n(rng, 2),
                                Self::num(rng, r, !colon),
                                Self::num(rng, g, !colon),
                                Self::num(rng, b, !colon)
                            ),
                            5,
                        )
                    }
                }
                20 | 21 => { let v = *rng.pick(UNKNOWN_CODES); (n(rng, v), 1) },
                _ => { let v = 30 + rng.below(8) as u16; (n(rng, v), 1) },
            };
        }
    }

    pub fn sgr_sequence(&mut self, rng: &mut Rng, out: &mut Vec<u8>) {
        out.extend_from_slice(b"\x1b[");
        let groups = match rng.below(10) {
            0 => 0,
            1..=5 => 1,
            6..=8 => rng.range(2, 4),
            _ => rng.range(4, 12),
        };
        let mut numbers = 0usize;
        let mut first = true;
        for _ in 0..groups {
            let save = self.ul;
            let (g, k) = self.group(rng);
            if numbers + k > self.opts.max_seq_numbers {
                self.ul = save;
                break;
            }
            numbers += k;
            if !first {
                out.push(b';');
            }
            first = false;
            out.extend_from_slice(g.as_bytes());
        }
        if groups == 0 {
            // "\x1b[m" == reset
            self.ul = Ul::None;
        }
        out.push(b'm');
    }

    fn noise(&mut self, rng: &mut Rng, out: &mut Vec<u8>) {
        match rng.below(8) {
            0 => {
                // other final
                out.extend_from_slice(b"\x1b[");
                out.extend_from_slice(rng.range(0, 99).to_string().as_bytes());
                out.push(*rng.pick(b"ABCDHJKfhlnsu@Lr"));
            }
            1 => {
                // private-marker CSI ending in m (xterm modifyOtherKeys etc.)
                out.extend_from_slice(b"\x1b[");
                out.push(*rng.pick(b"<=>?"));
                out.extend_from_slice(format!("{};{}", rng.range(0, 9), rng.range(0, 9)).as_bytes());
                out.push(b'm');
            }
            2 => {
                // intermediate CSI ending in m
                out.extend_from_slice(b"\x1b[");
                out.extend_from_slice(rng.range(0, 9).to_string().as_bytes());
                out.push(*rng.pick(b" !\"#$%&'()*+,-./"));
                out.push(b'm');
            }
            3 => {
                out.extend_from_slice(b"\x1b]0;title ");
                out.extend_from_slice(rng.pick(TEXT_CHARS).as_bytes());
                if rng.chance(1, 2) {
                    out.push(7);
                } else {
                    out.extend_from_slice(b"\x1b\\");
                }
            }
            4 => {
                out.extend_from_slice(b"\x1b]8;;http://x/");
                out.extend_from_slice(b"\x1b\\");
            }
            5 => {
                out.push(0x1b);
                out.push(*rng.pick(b"78=>cDEHMNOZ"));
            }
            6 => {
                out.extend_from_slice(b"\x1b(");
                out.push(*rng.pick(b"AB0"));
            }
            _ => {
                out.extend_from_slice(b"\x1bP1$r");
                out.extend_from_slice(b"0m");
                out.extend_from_slice(b"\x1b\\");
            }
        }
    }

    pub fn text(&mut self, rng: &mut Rng, out: &mut Vec<u8>, extra: &[&str]) {
        let n = rng.range(1, 8);
        for _ in 0..n {
            let k = rng.below(20);
            if k == 0 && self.opts.ws {
                out.extend_from_slice(rng.pick(&["\t", "\n", "\r\n", "\n\n"]).as_bytes());
            } else if k <= 2 && !extra.is_empty() {
                out.extend_from_slice(rng.pick(extra).as_bytes());
            } else {
                // no U+FFFF family here: SVG cannot carry them; C07 does not care
                let c = loop {
                    let c = *rng.pick(TEXT_CHARS);
                    if c != "\u{ffff}" && c != "\u{80}" && c != "\u{9c}" {
                        break c;
                    }
                };
                out.extend_from_slice(c.as_bytes());
            }
        }
    }

    /// a long run of visible text (length near a power-of-two threshold), optionally ended by CRLF
    pub fn long_run(&mut self, rng: &mut Rng, out: &mut Vec<u8>, max_threshold: usize) {
        let n = long_len(rng, max_threshold);
        // a colour change right in front, so that the long run starts exactly here
        self.long_k = self.long_k % 6 + 1;
        out.extend_from_slice(format!("\x1b[3{}m", self.long_k).as_bytes());
        let start = out.len();
        let wide = rng.chance(1, 4);
        while out.len() - start < n {
            if wide && rng.chance(1, 6) {
                out.extend_from_slice(rng.pick(&["\u{e9}", "\u{6f22}", "\u{1f600}", "\u{dc}"]).as_bytes());
            } else {
                out.push(*rng.pick(b"abcdefghij klmnopqrstuvwxyz.,-_"));
            }
        }
        // end exactly at the wanted length when the run is pure ASCII
        if !wide {
            out.truncate(start + n);
        }
        if self.opts.ws {
            match rng.below(4) {
                0 => {
                    // CRLF placed so that the CR is the last byte of the wanted length
                    if !wide && n >= 2 {
                        out.truncate(start + n - 1);
                        out.extend_from_slice(b"\r\n");
                    }
                }
                1 => out.push(b'\n'),
                _ => {}
            }
        }
    }

    pub fn document(&mut self, rng: &mut Rng, max_items: u64, extra: &[&str]) -> Vec<u8> {
        let mut out = Vec::new();
        if rng.chance(1, 40) {
            out.extend_from_slice("\u{feff}".as_bytes());
        }
        let items = rng.range(0, max_items);
        for _ in 0..items {
            if self.long_runs_up_to > 0 && rng.chance(1, 40) {
                let thr = self.long_runs_up_to;
                self.long_run(rng, &mut out, thr);
                continue;
            }
            match rng.below(10) {
                0..=3 => self.text(rng, &mut out, extra),
                4..=7 => self.sgr_sequence(rng, &mut out),
                8 if self.opts.noise => self.noise(rng, &mut out),
                _ => self.text(rng, &mut out, extra),
            }
        }
        out
    }
}

pub fn gen_sgr_text(rng: &mut Rng, opts: SgrOpts, max_items: u64, extra: &[&str]) -> Vec<u8> {
    let mut g = SgrGen::new(opts);
    // one document in four may contain long runs (lengths on power-of-two thresholds)
    if rng.chance(1, 4) {
        g.long_runs_up_to = 8192;
    }
    g.document(rng, max_items, extra)
}

/// Deterministic sweep: a run of exactly `len` visible bytes that starts right after a style change and is ended by
/// `ending` (0: another style change, 1: CRLF whose CR is the last byte of the run, 2: reset, 3: end of input).
pub fn threshold_document(len: usize, ending: u8, styled: bool) -> Vec<u8> {
    let mut out = b"head\n".to_vec();
    out.extend_from_slice(if styled { b"\x1b[1;32m" } else { b"\x1b[m" });
    let body = b"abcdefghijklmnopqrstuvwxyz ";
    match ending {
        1 => {
            for i in 0..len.saturating_sub(1) {
                out.push(body[i % body.len()]);
            }
            out.extend_from_slice(b"\r\nnext line\r\n");
            out.extend_from_slice(b"\x1b[31mred\x1b[0m end");
        }
        0 => {
            for i in 0..len {
                out.push(body[i % body.len()]);
            }
            out.extend_from_slice(b"\x1b[31mred\x1b[0m plain");
        }
        2 => {
            for i in 0..len {
                out.push(body[i % body.len()]);
            }
            out.extend_from_slice(b"\x1b[0m plain \x1b[4munder");
        }
        _ => {
            for i in 0..len {
                out.push(body[i % body.len()]);
            }
        }
    }
    out
}

// ------------------------------------------------------------------------------------------------
// chunkers

/// All partitions of 0..n described by a bitmask over the n-1 interior cut points.
pub fn cuts_from_mask(n: usize, mask: u64) -> Vec<usize> {
    let mut cuts = vec![];
    for i in 1..n {
        if mask & (1 << (i - 1)) != 0 {
            cuts.push(i);
        }
    }
    cuts
}

/// Split `data` at `cuts` (strictly increasing interior positions).
pub fn split_at_cuts<'a>(data: &'a [u8], cuts: &[usize]) -> Vec<&'a [u8]> {
    let mut out = Vec::with_capacity(cuts.len() + 1);
    let mut prev = 0;
    for &c in cuts {
        out.push(&data[prev..c]);
        prev = c;
    }
    out.push(&data[prev..]);
    out
}

#[derive(Debug, Clone, Copy)]
pub enum Chunker {
    Whole,
    Single,
    Fixed(usize),
    Random(usize),
    /// one cut at the given position
    At(usize),
}

pub fn chunk_cuts(rng: &mut Rng, n: usize, c: Chunker) -> Vec<usize> {
    match c {
        Chunker::Whole => vec![],
        Chunker::Single => (1..n).collect(),
        Chunker::Fixed(k) => (1..n).filter(|i| i % k.max(1) == 0).collect(),
        Chunker::Random(k) => {
            let mut v = vec![];
            let mut p = 0usize;
            loop {
                p += rng.range(1, k.max(1) as u64) as usize;
                if p >= n {
                    break;
                }
                v.push(p);
            }
            v
        }
        Chunker::At(p) => {
            if p > 0 && p < n {
                vec![p]
            } else {
                vec![]
            }
        }
    }
}

/// Move every cut to the nearest char boundary at or before it (for the `str` APIs); drops duplicates / 0.
pub fn cuts_to_char_boundaries(s: &str, cuts: &[usize]) -> Vec<usize> {
    let mut out: Vec<usize> = vec![];
    for &c in cuts {
        let mut c = c;
        while c > 0 && !s.is_char_boundary(c) {
            c -= 1;
        }
        if c > 0 && c < s.len() && out.last() != Some(&c) {
            out.push(c);
        }
    }
    out
}


// ------------------------------------------------------------------------------------------------
// long inputs: lengths that sit on internal thresholds (buffer sizes, block sizes, counter widths)

pub const THRESHOLDS: [usize; 11] = [64, 128, 256, 512, 1024, 2048, 4096, 8192, 16384, 32768, 65536];

/// a length within +-2 of a power-of-two threshold <= max_threshold (small thresholds more often)
pub fn long_len(rng: &mut Rng, max_threshold: usize) -> usize {
    let cands: Vec<usize> = THRESHOLDS.iter().copied().filter(|t| *t <= max_threshold.max(64)).collect();
    // weight ~ 1/t so that the total work stays bounded
    let t = loop {
        let t = *rng.pick(&cands);
        if t <= 1024 || rng.below((t / 512) as u64) == 0 {
            break t;
        }
    };
    let d = rng.range(0, 8) as i64 - 3;
    (t as i64 + if d > 2 { rng.range(0, t as u64 / 2) as i64 } else { d }).max(1) as usize
}

/// One long piece of a single class, surrounded by short hostile pieces and followed by a second, short sequence of
/// the same kind (so that state left behind by the long one becomes visible).
pub fn gen_long_stream(rng: &mut Rng, max_threshold: usize, utf8_only: bool) -> Vec<u8> {
    let mut out = if rng.chance(1, 2) { gen_stream(rng, 24, utf8_only) } else { b"hd ".to_vec() };
    // leave whatever sequence the prefix left open
    out.push(0x18);
    if rng.chance(1, 2) {
        out.extend_from_slice(b"\x1b[1;31merr\x1b[0m: ");
    }
    let n = long_len(rng, max_threshold);
    let fill = |rng: &mut Rng, out: &mut Vec<u8>, n: usize, alphabet: &[u8]| {
        for _ in 0..n {
            out.push(*rng.pick(alphabet));
        }
    };
    let special: [&[u8]; 8] = [b"\x7f", "\u{dc}".as_bytes(), "\u{2705}".as_bytes(), b"\n", b"\r\n", b"\t", b"\x00", "\u{e9}".as_bytes()];
    match rng.below(8) {
        0 | 1 => {
            // plain printable ASCII run, one special piece somewhere inside (often right at a 64-byte block boundary)
            let start = out.len();
            fill(rng, &mut out, n, b"abcdefghijklmnopqrstuvwxyz ABC.,;:[]m0123456789");
            let pos = if rng.chance(1, 2) { (rng.below((n / 64).max(1) as u64) as usize) * 64 + *rng.pick(&[0usize, 1, 10, 63]) } else { rng.below(n as u64) as usize };
            let pos = start + pos.min(n - 1);
            let sp: &[u8] = *rng.pick(&special[..]);
            if !(utf8_only && std::str::from_utf8(sp).is_err()) && rng.chance(3, 4) {
                let tail = out.split_off(pos);
                out.extend_from_slice(sp);
                out.extend_from_slice(&tail);
            }
        }
        2 => {
            // OSC payload
            out.extend_from_slice(b"\x1b]");
            out.extend_from_slice(*rng.pick(&[&b"0;"[..], b"52;c;", b"1337;File=inline=1:", b""]));
            fill(rng, &mut out, n, b"abcdefghij;klmnopqrstuvwxyz=/+0123456789ABCDEF");
            push_terminator(rng, &mut out);
        }
        3 => {
            // DCS passthrough payload, possibly containing a character with a 0x9c byte (8-bit ST)
            out.extend_from_slice(b"\x1bPq");
            let start = out.len();
            fill(rng, &mut out, n, b"#0;2;0;0;0~@-$?!1234567890abcdefg");
            if rng.chance(1, 2) {
                let pos = start + rng.below(n as u64) as usize;
                let tail = out.split_off(pos);
                out.extend_from_slice("\u{dc}".as_bytes());
                out.extend_from_slice(&tail);
            }
            push_terminator(rng, &mut out);
        }
        4 => {
            out.push(0x1b);
            out.push(*rng.pick(b"X^_"));
            fill(rng, &mut out, n, b"abcdefghijklmnopqrstuvwxyz 0123456789");
            push_terminator(rng, &mut out);
        }
        5 => {
            // CSI with a very long parameter section
            out.extend_from_slice(b"\x1b[");
            fill(rng, &mut out, n.min(4096), b"0123456789;;:");
            out.push(*rng.pick(b"mHq"));
        }
        6 => {
            // multi-byte text run
            let start = out.len();
            while out.len() - start < n {
                out.extend_from_slice(rng.pick(&["\u{e9}", "\u{6f22}", "\u{1f600}", "a", " ", "\u{dc}", "\u{2705}"]).as_bytes());
            }
        }
        _ => {
            // long run ended by a style change, then more text
            fill(rng, &mut out, n, b"abcdefghijklmnopqrstuvwxyz ");
            out.extend_from_slice(b"\x1b[31mred\x1b[0m");
        }
    }
    out.extend_from_slice(b" tail\n");
    // second, short use of the same machinery
    match rng.below(4) {
        0 => out.extend_from_slice(b"\x1b]0;title\x07after"),
        1 => out.extend_from_slice(b"\x1bP1$rx\x1b\\after"),
        2 => out.extend_from_slice(b"\x1b[32mgreen\x1b[m after"),
        _ => {}
    }
    if !utf8_only && rng.chance(1, 8) {
        push_malformed_utf8(rng, &mut out);
    }
    let tail = gen_stream(rng, 24, utf8_only);
    out.extend_from_slice(&tail);
    if utf8_only && std::str::from_utf8(&out).is_err() {
        out = String::from_utf8_lossy(&out).into_owned().into_bytes();
    }
    out
}
