//! Independent reference models and workload generators.  No dependency on any crate under /repo.
pub mod gen;
pub mod json;
pub mod rng;
pub mod sgr;
pub mod vt;
