//! Minimal JSON value + writer (no external crates).
use std::collections::BTreeMap;
use std::fmt::Write as _;

#[derive(Debug, Clone, PartialEq)]
pub enum J {
    Null,
    Bool(bool),
    Int(i64),
    UInt(u64),
    Str(String),
    Arr(Vec<J>),
    Obj(BTreeMap<String, J>),
}

impl J {
    pub fn obj() -> J {
        J::Obj(BTreeMap::new())
    }
    pub fn set(&mut self, k: &str, v: J) -> &mut J {
        if let J::Obj(m) = self {
            m.insert(k.to_string(), v);
        }
        self
    }
    pub fn s(v: impl Into<String>) -> J {
        J::Str(v.into())
    }
    pub fn write(&self, out: &mut String) {
        match self {
            J::Null => out.push_str("null"),
            J::Bool(b) => out.push_str(if *b { "true" } else { "false" }),
            J::Int(i) => {
                let _ = write!(out, "{i}");
            }
            J::UInt(i) => {
                let _ = write!(out, "{i}");
            }
            J::Str(s) => write_str(s, out),
            J::Arr(a) => {
                out.push('[');
                for (i, v) in a.iter().enumerate() {
                    if i > 0 {
                        out.push(',');
                    }
                    v.write(out);
                }
                out.push(']');
            }
            J::Obj(m) => {
                out.push('{');
                for (i, (k, v)) in m.iter().enumerate() {
                    if i > 0 {
                        out.push(',');
                    }
                    write_str(k, out);
                    out.push(':');
                    v.write(out);
                }
                out.push('}');
            }
        }
    }
    pub fn to_string(&self) -> String {
        let mut s = String::new();
        self.write(&mut s);
        s
    }
}

fn write_str(s: &str, out: &mut String) {
    out.push('"');
    for c in s.chars() {
        match c {
            '"' => out.push_str("\\\""),
            '\\' => out.push_str("\\\\"),
            '\n' => out.push_str("\\n"),
            '\r' => out.push_str("\\r"),
            '\t' => out.push_str("\\t"),
            c if (c as u32) < 0x20 || c == '\u{7f}' || ('\u{80}'..='\u{9f}').contains(&c) || c == '\u{2028}' || c == '\u{2029}' => {
                let _ = write!(out, "\\u{:04x}", c as u32);
            }
            c if (c as u32) > 0xffff => {
                let v = c as u32 - 0x10000;
                let _ = write!(out, "\\u{:04x}\\u{:04x}", 0xd800 + (v >> 10), 0xdc00 + (v & 0x3ff));
            }
            c if c == '\u{ffff}' || c == '\u{fffe}' => {
                let _ = write!(out, "\\u{:04x}", c as u32);
            }
            c => out.push(c),
        }
    }
    out.push('"');
}

pub fn hex(b: &[u8]) -> String {
    let mut s = String::with_capacity(b.len() * 2);
    for x in b {
        let _ = write!(s, "{x:02x}");
    }
    s
}

pub fn unhex(s: &str) -> Option<Vec<u8>> {
    let s = s.trim();
    if s.len() % 2 != 0 {
        return None;
    }
    let mut out = Vec::with_capacity(s.len() / 2);
    for i in (0..s.len()).step_by(2) {
        out.push(u8::from_str_radix(s.get(i..i + 2)?, 16).ok()?);
    }
    Some(out)
}

/// Printable rendering of bytes for samples: ASCII kept, everything else \xNN.
pub fn show(b: &[u8]) -> String {
    let mut s = String::new();
    for &x in b {
        match x {
            b'\\' => s.push_str("\\\\"),
            0x20..=0x7e => s.push(x as char),
            _ => {
                let _ = write!(s, "\\x{x:02x}");
            }
        }
    }
    s
}
