//! Independent reference VT500 parser (Paul Williams' DEC ANSI parser) with the deviations
//! anstyle-parse documents: UTF-8 text, BEL-terminated OSC, 7-bit controls, ':' sub-parameters.
//!
//! Written from the state diagram, not from the crate's table.  No dependency on /repo.

#[derive(Debug, Clone, PartialEq, Eq, Hash)]
pub enum Ev {
    Print(char),
    Execute(u8),
    Hook { params: Vec<Vec<u16>>, inter: Vec<u8>, ignore: bool, fin: u8 },
    Put(u8),
    Unhook,
    Osc { params: Vec<Vec<u8>>, bell: bool },
    Csi { params: Vec<Vec<u16>>, inter: Vec<u8>, ignore: bool, fin: u8 },
    Esc { inter: Vec<u8>, ignore: bool, fin: u8 },
}

#[derive(Debug, Clone, Copy, PartialEq, Eq, Hash, PartialOrd, Ord)]
pub enum St {
    Ground = 0,
    Escape,
    EscInt,
    CsiEntry,
    CsiParam,
    CsiInt,
    CsiIgnore,
    DcsEntry,
    DcsParam,
    DcsInt,
    DcsPass,
    DcsIgnore,
    Osc,
    Sos,
}
pub const N_ST: usize = 14;
/// coverage slot used for "inside a multi-byte character"
pub const SLOT_MIDCHAR: usize = 14;
pub const N_SLOTS: usize = 15;
pub const ST_NAMES: [&str; N_SLOTS] = [
    "ground", "escape", "escape_intermediate", "csi_entry", "csi_param", "csi_intermediate", "csi_ignore",
    "dcs_entry", "dcs_param", "dcs_intermediate", "dcs_passthrough", "dcs_ignore", "osc_string",
    "sos_pm_apc_string", "mid_utf8_char",
];
pub const ALL_ST: [St; N_ST] = [
    St::Ground, St::Escape, St::EscInt, St::CsiEntry, St::CsiParam, St::CsiInt, St::CsiIgnore, St::DcsEntry,
    St::DcsParam, St::DcsInt, St::DcsPass, St::DcsIgnore, St::Osc, St::Sos,
];

/// What happens to the byte that does not continue a started multi-byte character.
#[derive(Debug, Clone, Copy, PartialEq, Eq)]
pub enum Policy {
    /// the decoder swallows it (behaviour of the `utf8parse` decoder the crate delegates to)
    Consume,
    /// it is processed again from ground (WHATWG / Unicode "maximal subpart" practice)
    Reprocess,
    /// an ASCII byte is processed again (it can never be part of a multi-byte character), any other byte is swallowed
    Hybrid,
}

pub const MAX_PARAMS: usize = 32;
pub const MAX_INTER: usize = 2;
pub const MAX_OSC_FIELDS: usize = 16;

#[derive(Clone, Debug)]
pub struct RefVt {
    pub st: St,
    utf8_need: u8,
    utf8_lo: u8,
    utf8_hi: u8,
    utf8_cp: u32,
    inter: Vec<u8>,
    ignore: bool,
    nums: Vec<u16>,
    groups: Vec<usize>,
    cur: u16,
    in_group: bool,
    osc: Vec<u8>,
    osc_payload_bytes: usize,
    pub ev: Vec<Ev>,
    pub policy: Policy,
    /// `Some(n)`: OSC payload (bytes other than ';') is cut at n bytes, later bytes (and separators) are dropped
    pub osc_cap: Option<usize>,
    /// true: bytes >= 0x80 never start a character (7-bit-only configuration; not used for comparison there)
    pub keep_events: bool,
    /// internal bookkeeping actions (collect / param / osc_put / clear) in order, for the cell check
    pub trace: Vec<&'static str>,
    pub trace_on: bool,
    /// whether the last byte handled by the UTF-8 accumulator was accepted as a continuation
    pub utf8_accepted: bool,
    /// indices (into `ev`) of OSC events whose string had more than 16 fields: the limit of 16 parameters is
    /// documented, what the 16th parameter holds when more separators arrive is not (the text of the 16th field, as
    /// this model reports it, or that text with the later bytes appended)
    pub osc16: Vec<usize>,
}

impl Default for RefVt {
    fn default() -> Self {
        Self::new(Policy::Consume)
    }
}

impl RefVt {
    pub fn new(policy: Policy) -> Self {
        RefVt {
            st: St::Ground,
            utf8_need: 0,
            utf8_lo: 0,
            utf8_hi: 0,
            utf8_cp: 0,
            inter: vec![],
            ignore: false,
            nums: vec![],
            groups: vec![],
            cur: 0,
            in_group: false,
            osc: vec![],
            osc_payload_bytes: 0,
            ev: vec![],
            policy,
            osc_cap: None,
            keep_events: true,
            trace: vec![],
            trace_on: false,
            utf8_accepted: false,
            osc16: vec![],
        }
    }

    /// coverage slot of the current position (state, or "mid character")
    pub fn slot(&self) -> usize {
        if self.utf8_need > 0 {
            SLOT_MIDCHAR
        } else {
            self.st as usize
        }
    }
    pub fn mid_char(&self) -> bool {
        self.utf8_need > 0
    }

    fn emit(&mut self, e: Ev) {
        self.ev.push(e);
    }

    fn clear(&mut self) {
        self.inter.clear();
        self.ignore = false;
        self.nums.clear();
        self.groups.clear();
        self.cur = 0;
        self.in_group = false;
    }
    fn collect(&mut self, b: u8) {
        if self.trace_on {
            self.trace.push("collect");
        }
        if self.inter.len() == MAX_INTER {
            self.ignore = true;
        } else {
            self.inter.push(b);
        }
    }
    fn push_num(&mut self, end_group: bool) {
        if !self.in_group {
            self.groups.push(self.nums.len());
        }
        self.nums.push(self.cur);
        self.cur = 0;
        self.in_group = !end_group;
    }
    fn param(&mut self, b: u8) {
        if self.trace_on {
            self.trace.push("param");
        }
        if self.nums.len() == MAX_PARAMS {
            self.ignore = true;
            return;
        }
        match b {
            b';' => self.push_num(true),
            b':' => self.push_num(false),
            _ => self.cur = self.cur.saturating_mul(10).saturating_add((b - b'0') as u16),
        }
    }
    fn finish_params(&mut self) -> Vec<Vec<u16>> {
        if self.nums.len() == MAX_PARAMS {
            self.ignore = true;
        } else {
            self.push_num(true);
        }
        let mut out = vec![];
        for (i, &s) in self.groups.iter().enumerate() {
            let e = if i + 1 < self.groups.len() { self.groups[i + 1] } else { self.nums.len() };
            out.push(self.nums[s..e].to_vec());
        }
        out
    }
    fn exit(&mut self, bell: bool) {
        match self.st {
            St::DcsPass => self.emit(Ev::Unhook),
            St::Osc => {
                let mut f: Vec<Vec<u8>> = self.osc.split(|&c| c == b';').map(|s| s.to_vec()).collect();
                if f.len() > MAX_OSC_FIELDS {
                    self.osc16.push(self.ev.len());
                }
                f.truncate(MAX_OSC_FIELDS);
                self.emit(Ev::Osc { params: f, bell });
            }
            _ => {}
        }
    }
    fn enter(&mut self, st: St, b: u8) {
        match st {
            St::Escape | St::CsiEntry | St::DcsEntry => self.clear(),
            St::DcsPass => {
                let p = self.finish_params();
                let e = Ev::Hook { params: p, inter: self.inter.clone(), ignore: self.ignore, fin: b };
                self.emit(e);
            }
            St::Osc => {
                self.osc.clear();
                self.osc_payload_bytes = 0;
            }
            _ => {}
        }
        self.st = st;
    }
    fn go(&mut self, st: St, b: u8) {
        self.exit(b == 7);
        self.enter(st, b);
    }
    fn osc_put(&mut self, b: u8) {
        if self.trace_on {
            self.trace.push("osc_put");
        }
        if let Some(cap) = self.osc_cap {
            if self.osc_payload_bytes >= cap {
                return;
            }
        }
        if b != b';' {
            self.osc_payload_bytes += 1;
        }
        self.osc.push(b);
    }
    fn utf8(&mut self, b: u8) {
        self.utf8_accepted = b >= self.utf8_lo && b <= self.utf8_hi;
        if self.utf8_accepted {
            self.utf8_cp = (self.utf8_cp << 6) | (b & 0x3f) as u32;
            self.utf8_need -= 1;
            self.utf8_lo = 0x80;
            self.utf8_hi = 0xbf;
            if self.utf8_need == 0 {
                let c = char::from_u32(self.utf8_cp).expect("ranges exclude surrogates and > 10FFFF");
                self.emit(Ev::Print(c));
            }
        } else {
            self.utf8_need = 0;
            self.emit(Ev::Print('\u{fffd}'));
            if self.policy == Policy::Reprocess || (self.policy == Policy::Hybrid && b < 0x80) {
                self.step(b);
            }
        }
    }

    pub fn feed(&mut self, bytes: &[u8]) {
        for &b in bytes {
            self.step(b);
        }
    }

    pub fn step(&mut self, b: u8) {
        if self.utf8_need > 0 {
            self.utf8(b);
            return;
        }
        // "anywhere" transitions that the crate keeps: CAN, SUB, ESC
        match b {
            0x18 | 0x1a => {
                self.go(St::Ground, b);
                self.emit(Ev::Execute(b));
                return;
            }
            0x1b => {
                self.go(St::Escape, b);
                return;
            }
            _ => {}
        }
        let c0 = b < 0x20;
        match self.st {
            St::Ground => match b {
                _ if c0 => self.emit(Ev::Execute(b)),
                0x20..=0x7f => self.emit(Ev::Print(b as char)),
                0x80..=0x8f | 0x91..=0x9a | 0x9c => self.emit(Ev::Execute(b)),
                0xc2..=0xdf => {
                    self.utf8_need = 1;
                    self.utf8_cp = (b & 0x1f) as u32;
                    self.utf8_lo = 0x80;
                    self.utf8_hi = 0xbf;
                }
                0xe0..=0xef => {
                    self.utf8_need = 2;
                    self.utf8_cp = (b & 0x0f) as u32;
                    self.utf8_lo = if b == 0xe0 { 0xa0 } else { 0x80 };
                    self.utf8_hi = if b == 0xed { 0x9f } else { 0xbf };
                }
                0xf0..=0xf4 => {
                    self.utf8_need = 3;
                    self.utf8_cp = (b & 0x07) as u32;
                    self.utf8_lo = if b == 0xf0 { 0x90 } else { 0x80 };
                    self.utf8_hi = if b == 0xf4 { 0x8f } else { 0xbf };
                }
                _ => {}
            },
            St::Escape => match b {
                _ if c0 => self.emit(Ev::Execute(b)),
                0x20..=0x2f => {
                    self.collect(b);
                    self.st = St::EscInt;
                }
                0x5b => self.go(St::CsiEntry, b),
                0x5d => self.go(St::Osc, b),
                0x50 => self.go(St::DcsEntry, b),
                0x58 | 0x5e | 0x5f => self.go(St::Sos, b),
                0x30..=0x7e => {
                    let e = Ev::Esc { inter: self.inter.clone(), ignore: self.ignore, fin: b };
                    self.emit(e);
                    self.st = St::Ground;
                }
                _ => {}
            },
            St::EscInt => match b {
                _ if c0 => self.emit(Ev::Execute(b)),
                0x20..=0x2f => self.collect(b),
                0x30..=0x7e => {
                    let e = Ev::Esc { inter: self.inter.clone(), ignore: self.ignore, fin: b };
                    self.emit(e);
                    self.st = St::Ground;
                }
                _ => {}
            },
            St::CsiEntry | St::CsiParam | St::CsiInt | St::CsiIgnore => match b {
                _ if c0 => self.emit(Ev::Execute(b)),
                0x40..=0x7e => {
                    if self.st != St::CsiIgnore {
                        let p = self.finish_params();
                        let e = Ev::Csi { params: p, inter: self.inter.clone(), ignore: self.ignore, fin: b };
                        self.emit(e);
                    }
                    self.st = St::Ground;
                }
                0x20..=0x2f => {
                    if self.st != St::CsiIgnore {
                        self.collect(b);
                        self.st = St::CsiInt;
                    }
                }
                0x30..=0x3b => match self.st {
                    St::CsiEntry | St::CsiParam => {
                        self.param(b);
                        self.st = St::CsiParam;
                    }
                    St::CsiInt => self.st = St::CsiIgnore,
                    _ => {}
                },
                0x3c..=0x3f => match self.st {
                    St::CsiEntry => {
                        self.collect(b);
                        self.st = St::CsiParam;
                    }
                    St::CsiParam | St::CsiInt => self.st = St::CsiIgnore,
                    _ => {}
                },
                _ => {}
            },
            St::DcsEntry | St::DcsParam | St::DcsInt => match b {
                0x40..=0x7e => self.go(St::DcsPass, b),
                0x20..=0x2f => {
                    self.collect(b);
                    self.st = St::DcsInt;
                }
                0x30..=0x3b => match self.st {
                    St::DcsInt => self.st = St::DcsIgnore,
                    _ => {
                        self.param(b);
                        self.st = St::DcsParam;
                    }
                },
                0x3c..=0x3f => match self.st {
                    St::DcsEntry => {
                        self.collect(b);
                        self.st = St::DcsParam;
                    }
                    _ => self.st = St::DcsIgnore,
                },
                _ => {}
            },
            St::DcsPass => match b {
                0x9c => self.go(St::Ground, b),
                0x7f => {}
                0x00..=0x7e => self.emit(Ev::Put(b)),
                _ => {}
            },
            St::DcsIgnore | St::Sos => {
                if b == 0x9c {
                    self.st = St::Ground;
                }
            }
            St::Osc => match b {
                0x07 => self.go(St::Ground, b),
                0x20..=0xff => self.osc_put(b),
                _ => {}
            },
        }
    }
}

/// Event lists equal, where for the OSC events listed in `osc16` (indices into `want`) the 16th parameter only has to
/// begin with the text of the 16th field.
pub fn events_agree(got: &[Ev], want: &[Ev], osc16: &[usize]) -> bool {
    if got.len() != want.len() {
        return false;
    }
    got.iter().zip(want).enumerate().all(|(i, (g, w))| {
        if g == w {
            return true;
        }
        if !osc16.contains(&i) {
            return false;
        }
        match (g, w) {
            (Ev::Osc { params: gp, bell: gb }, Ev::Osc { params: wp, bell: wb }) => gb == wb && gp.len() == wp.len() && gp.len() == MAX_OSC_FIELDS && gp[..MAX_OSC_FIELDS - 1] == wp[..MAX_OSC_FIELDS - 1] && gp[MAX_OSC_FIELDS - 1].starts_with(&wp[MAX_OSC_FIELDS - 1]),
            _ => false,
        }
    })
}

/// `parse` together with the indices of the OSC events that overflowed the 16 parameters
pub fn parse_osc16(bytes: &[u8], policy: Policy) -> (Vec<Ev>, Vec<usize>) {
    let mut r = RefVt::new(policy);
    r.feed(bytes);
    (r.ev, r.osc16)
}

pub fn parse(bytes: &[u8], policy: Policy) -> Vec<Ev> {
    let mut r = RefVt::new(policy);
    r.feed(bytes);
    r.ev
}

#[inline]
pub fn is_ws_control(b: u8) -> bool {
    matches!(b, 0x09 | 0x0a | 0x0c | 0x0d)
}

/// Append the visible rendering of an event list.
pub fn visible_of_events(ev: &[Ev], out: &mut Vec<u8>) {
    let mut buf = [0u8; 4];
    for e in ev {
        match e {
            Ev::Print(c) if *c != '\x7f' => out.extend_from_slice(c.encode_utf8(&mut buf).as_bytes()),
            Ev::Execute(b) if is_ws_control(*b) => out.push(*b),
            _ => {}
        }
    }
}

/// Visible text of `bytes`: printed characters (except DEL) and executed TAB/LF/FF/CR.
/// For valid UTF-8 input this is byte-for-byte a subsequence of the input.
pub fn visible(bytes: &[u8], policy: Policy) -> Vec<u8> {
    let mut r = RefVt::new(policy);
    let mut out = Vec::with_capacity(bytes.len());
    for &b in bytes {
        r.step(b);
        if !r.ev.is_empty() {
            visible_of_events(&r.ev, &mut out);
            r.ev.clear();
        }
    }
    out
}

pub fn ascii_only(bytes: &[u8]) -> Vec<u8> {
    bytes.iter().copied().filter(|b| *b < 0x80).collect()
}

/// State slot in which each input byte arrives.
pub fn arrival_slots(bytes: &[u8], policy: Policy) -> Vec<u8> {
    let mut r = RefVt::new(policy);
    r.keep_events = false;
    let mut out = Vec::with_capacity(bytes.len());
    for &b in bytes {
        out.push(r.slot() as u8);
        r.step(b);
        r.ev.clear();
    }
    out
}

/// Reference transition function for a single byte in a given state (used by the 16x256 cell check).
/// Returns (next state, events emitted) for a model put in state `st` with cleared buffers.
pub fn cell(st: St, b: u8) -> (St, Vec<Ev>, bool, Vec<&'static str>) {
    let mut r = RefVt::new(Policy::Consume);
    r.st = st;
    r.trace_on = true;
    r.step(b);
    (r.st, r.ev.clone(), r.mid_char(), r.trace.clone())
}

/// Byte-granular reference stripper: decides for every input byte whether it belongs to the visible text.
/// For valid UTF-8 input the kept bytes are exactly `visible(input)`; a multi-byte character is kept byte by
/// byte as it arrives, so the stripper can be stopped and resumed at any byte position.
#[derive(Clone, Debug)]
pub struct RefStrip {
    pub vt: RefVt,
}

impl Default for RefStrip {
    fn default() -> Self {
        Self::new()
    }
}

impl RefStrip {
    pub fn new() -> Self {
        let mut vt = RefVt::new(Policy::Reprocess);
        vt.keep_events = true;
        RefStrip { vt }
    }
    /// true when byte `b` is part of the visible text
    pub fn step(&mut self, b: u8) -> bool {
        let was_mid = self.vt.mid_char();
        self.vt.ev.clear();
        self.vt.step(b);
        let keep = if b >= 0x80 {
            // lead or accepted continuation: still inside the character, or it completed a character
            if was_mid {
                self.vt.utf8_accepted || self.vt.mid_char()
            } else {
                self.vt.mid_char()
            }
        } else {
            self.vt.ev.iter().any(|e| match e {
                Ev::Print(c) => *c as u32 == b as u32 && b != 0x7f,
                Ev::Execute(x) => *x == b && is_ws_control(b),
                _ => false,
            })
        };
        self.vt.ev.clear();
        keep
    }
    pub fn feed(&mut self, bytes: &[u8], out: &mut Vec<u8>) {
        for &b in bytes {
            if self.step(b) {
                out.push(b);
            }
        }
    }
    pub fn slot(&self) -> usize {
        self.vt.slot()
    }
}

pub fn ref_strip(bytes: &[u8]) -> Vec<u8> {
    let mut s = RefStrip::new();
    let mut out = Vec::with_capacity(bytes.len());
    s.feed(bytes, &mut out);
    out
}
