//! SplitMix64: tiny deterministic RNG, reproducible from (seed, stream).
#[derive(Clone, Debug)]
pub struct Rng(pub u64);

impl Rng {
    pub fn new(seed: u64, stream: u64) -> Self {
        let mut r = Rng(seed ^ stream.wrapping_mul(0x9E37_79B9_7F4A_7C15) ^ 0xD1B5_4A32_D192_ED03);
        r.next();
        r.next();
        r
    }
    #[inline]
    pub fn next(&mut self) -> u64 {
        self.0 = self.0.wrapping_add(0x9E37_79B9_7F4A_7C15);
        let mut z = self.0;
        z = (z ^ (z >> 30)).wrapping_mul(0xBF58_476D_1CE4_E5B9);
        z = (z ^ (z >> 27)).wrapping_mul(0x94D0_49BB_1331_11EB);
        z ^ (z >> 31)
    }
    /// uniform in 0..n (n > 0)
    #[inline]
    pub fn below(&mut self, n: u64) -> u64 {
        self.next() % n
    }
    #[inline]
    pub fn range(&mut self, lo: u64, hi_incl: u64) -> u64 {
        lo + self.below(hi_incl - lo + 1)
    }
    #[inline]
    pub fn chance(&mut self, num: u64, den: u64) -> bool {
        self.below(den) < num
    }
    #[inline]
    pub fn pick<'a, T>(&mut self, xs: &'a [T]) -> &'a T {
        &xs[self.below(xs.len() as u64) as usize]
    }
    #[inline]
    pub fn byte(&mut self) -> u8 {
        self.next() as u8
    }
}

/// FNV-1a 64 — used to count distinct cases.
#[inline]
pub fn hash64(data: &[u8]) -> u64 {
    let mut h: u64 = 0xcbf2_9ce4_8422_2325;
    for &b in data {
        h ^= b as u64;
        h = h.wrapping_mul(0x0000_0100_0000_01B3);
    }
    // final avalanche so that low bits are usable
    h ^= h >> 32;
    h = h.wrapping_mul(0x9E37_79B9_7F4A_7C15);
    h ^ (h >> 29)
}
