#!/usr/bin/env python3
"""Regenerates MANIFEST.json from the property table (developer helper; the result is committed)."""
import json, os, sys
sys.path.insert(0, os.path.dirname(os.path.dirname(os.path.abspath(__file__))))
from vlib import props, manifest_text as T

all_ids = [json.loads(l)["id"] for l in open(os.path.join(os.path.dirname(__file__), "..", "properties.jsonl"))]
checks = []
na = []
for pid in all_ids:
    if pid in props.PROPS and pid in T.CLAIMS:
        c = T.CLAIMS[pid]
        checks.append({
            "property_id": pid,
            "quick_cmd": "./check %s quick" % pid,
            "thorough_cmd": "./check %s thorough" % pid,
            "evidence_file": "/verif/evidence/%s.json" % pid,
            "replay_cmd_template": "./check %s --replay {path}" % pid,
            "engine": "vh",
            "level_claimed": {"category": props.PROPS[pid]["level"], "text": c["text"], "design_ref": c["design_ref"]},
            "level_note": c["note"],
            "technique": c["technique"],
        })
    else:
        na.append({"property_id": pid, "reason": T.NOT_CLAIMED.get(pid, "check not built yet (planned in DESIGN.md section 7); nothing is claimed for it")})
m = {
    "version": 1,
    "setup_cmd": "./check --setup",
    "hooks": T.HOOKS,
    "engines": T.ENGINES,
    "checks": checks,
    "notes": T.NOTES,
    "not_applicable": na,
}
json.dump(m, open(os.path.join(os.path.dirname(__file__), "..", "MANIFEST.json"), "w"), indent=1)
print("wrote MANIFEST.json with %d checks, %d not claimed" % (len(checks), len(na)))
