"""C19: output of one print call is never interleaved with another thread's; the global choice is an atomic register.

The child `vh-mt` prints uniquely tagged records from many threads through anstream's stdout/stderr and print macros
into pipes; this module is the offline history checker (contiguity, exactly-once, per-thread order) and the register
history checker.  Sanitizer lanes (Miri with many scheduler seeds, ThreadSanitizer) re-run reduced workloads."""
import bisect
import concurrent.futures as cf
import os
import re
import subprocess

from . import common
from .common import Inconclusive

M64 = (1 << 64) - 1


def mix(z):
    z = (z + 0x9E3779B97F4A7C15) & M64
    z = ((z ^ (z >> 30)) * 0xBF58476D1CE4E5B9) & M64
    z = ((z ^ (z >> 27)) * 0x94D049BB133111EB) & M64
    return z ^ (z >> 31)


NAPI = 13  # print paths in vh-mt's print mode


def is_long(tid, seq):
    return (seq + tid) % NAPI == 4 and seq % 4 == 0


def is_long_fmt(tid, seq):
    return (seq + tid) % NAPI == 3 and seq % 64 == 3


def expected_record(tid, seq, strip):
    """Mirror of vh-mt's record generator (kept deliberately tiny).  Returns the exact bytes one call must produce."""
    crc = mix((tid * 1000003 + seq) & M64) & 0xFFFFFFFF
    if is_long_fmt(tid, seq):
        unit = "f%xq%x." % (tid, seq)
        body = (unit * (12000 // len(unit) + 1))[:12000]
        return ("<%d:%d:F%s:%08x>\n" % (tid, seq, body, crc)).encode()
    if is_long(tid, seq):
        unit = "t%xs%x." % (tid, seq)
        tail = (unit * (1500 // len(unit) + 1))[:1500]
        return ("<%d:%d:L\n%s:%08x>" % (tid, seq, tail, crc)).encode()
    n = 3 + (seq % 4)
    parts = []
    for k in range(n):
        if not strip:
            parts.append("\x1b[%dm" % (31 + (tid + seq + k) % 7))
        parts.append("t%xs%xk%d" % (tid, seq, k))
    if not strip:
        parts.append("\x1b[0m")
    return ("<%d:%d:%s:%08x>\n" % (tid, seq, "".join(parts), crc)).encode()


HEAD = re.compile(rb"<(\d+):(\d+):")

# literal-only records (print path 12): bytes in pass-through mode; stripping removes the escape sequences
LITERALS = [
    b"<L0:\x1b[1;31merror\x1b[0m: literal zero \x1b[4mdone\x1b[0m>\n",
    b"<L1:\x1b[32mok\x1b[0m literal one, no arguments at all>\n",
    b"<L2:plain literal two>\n",
    b"<L3:\x1b[38;5;208mliteral\x1b[0m \x1b[1mthree\x1b[0m \x1b[3mwith\x1b[0m \x1b[4mmany\x1b[0m \x1b[7mpieces\x1b[0m>\n",
]
SGR = re.compile(rb"\x1b\[[0-9;]*m")


def literal_record(k, strip):
    return SGR.sub(b"", LITERALS[k]) if strip else LITERALS[k]


def is_literal(tid, seq):
    return (seq + tid) % NAPI == 12


def to_stderr(tid, seq):
    return (seq + tid) % NAPI in (2, 5, 9, 10, 11)


def check_pipe(data, which, threads, per, strip, res, lane, stats):
    """Offline checker for one pipe's byte stream: the stream must be a concatenation of whole records."""
    last_seq = {}
    seen = {}
    prev_tid = None
    switches = 0
    patterns = set()
    torn = 0
    first_torn = None
    lit_seen = {}
    pos = 0
    n = len(data)
    nrec = 0
    while pos < n:
        lit = None
        if data.startswith(b"<L", pos):
            for k in range(4):
                if data.startswith(literal_record(k, strip), pos):
                    lit = k
                    break
        if lit is not None:
            pos += len(literal_record(lit, strip))
            nrec += 1
            lit_seen[lit] = lit_seen.get(lit, 0) + 1
            if which != "stdout":
                res.violation("c19:wrong-stream", "[%s] a literal record appeared on %s" % (lane, which), check="c19", lane=lane)
            prev_tid = None
            continue
        m = HEAD.match(data, pos)
        ok = False
        if m:
            tid, seq = int(m.group(1)), int(m.group(2))
            if tid < threads and seq < per:
                exp = expected_record(tid, seq, strip)
                if data.startswith(exp, pos):
                    ok = True
        if not ok:
            # a torn record: count it once and re-synchronise on the next position where a whole record starts
            torn += 1
            if first_torn is None:
                first_torn = data[pos:pos + 160]
            q = pos + 1
            while True:
                q = data.find(b"<", q)
                if q < 0:
                    q = n
                    break
                if data.startswith(b"<L", q) and any(data.startswith(literal_record(k, strip), q) for k in range(4)):
                    break
                m2 = HEAD.match(data, q)
                if m2:
                    t2, s2 = int(m2.group(1)), int(m2.group(2))
                    if t2 < threads and s2 < per and data.startswith(expected_record(t2, s2, strip), q):
                        break
                q += 1
            pos = q
            prev_tid = None
            continue
        pos += len(exp)
        nrec += 1
        if to_stderr(tid, seq) != (which == "stderr"):
            res.violation("c19:wrong-stream", "[%s] record %d:%d appeared on %s" % (lane, tid, seq, which), check="c19", lane=lane)
        seen[(tid, seq)] = seen.get((tid, seq), 0) + 1
        if tid in last_seq and seq <= last_seq[tid]:
            res.violation("c19:per-thread-order", "[%s %s] thread %d: record %d after record %d" % (lane, which, tid, seq, last_seq[tid]), check="c19", lane=lane)
        last_seq[tid] = seq
        if is_long(tid, seq):
            stats["long_records"] = stats.get("long_records", 0) + 1
        if is_long_fmt(tid, seq):
            stats["long_formatted_records"] = stats.get("long_formatted_records", 0) + 1
        if prev_tid is not None and prev_tid != tid:
            switches += 1
            patterns.add((prev_tid, tid))
        prev_tid = tid
    if torn:
        res.violations.append({"sig": "c19:torn-record", "count": torn, "check": "c19", "lane": lane,
                               "example": {"msg": "[%s %s] the stream is not a concatenation of whole records at %d places; first: %r" % (lane, which, torn, first_torn),
                                           "case": {"kind": "c19-run", "lane": lane, "bytes_hex": [], "nums": []}}})
    if which == "stdout" and not torn:
        want_lit = {}
        for t in range(threads):
            for s2 in range(per):
                if is_literal(t, s2):
                    want_lit[t % 4] = want_lit.get(t % 4, 0) + 1
        if want_lit != lit_seen:
            res.violation("c19:literal-record-count", "[%s %s] literal records seen %s, printed %s" % (lane, which, lit_seen, want_lit), check="c19", lane=lane)
        stats["literal_records"] = stats.get("literal_records", 0) + sum(lit_seen.values())
    expected = [(t, s) for t in range(threads) for s in range(per) if to_stderr(t, s) == (which == "stderr") and not is_literal(t, s)]
    missing = [k for k in expected if k not in seen]
    dups = [k for k, c in seen.items() if c > 1]
    if missing and not torn:
        res.violation("c19:lost-record", "[%s %s] %d records never appeared, e.g. %s" % (lane, which, len(missing), missing[:3]), check="c19", lane=lane)
    if dups:
        res.violation("c19:duplicate-record", "[%s %s] %d records appeared more than once, e.g. %s" % (lane, which, len(dups), dups[:3]), check="c19", lane=lane)
    if strip and b"\x1b" in data:
        res.violation("c19:escape-in-strip-mode", "[%s %s] an ESC byte reached the pipe in stripping mode" % (lane, which), check="c19", lane=lane)
    stats["records"] = stats.get("records", 0) + len(seen)
    stats["thread_switches"] = stats.get("thread_switches", 0) + switches
    stats.setdefault("patterns", set()).update(patterns)
    return nrec


def run_print(exe, threads, per, seed, strip, timeout=900):
    env = dict(common.ENV)
    for k in ("NO_COLOR", "CLICOLOR", "CLICOLOR_FORCE", "TERM", "CI"):
        env.pop(k, None)
    if strip:
        env["NO_COLOR"] = "1"
    else:
        env["CLICOLOR_FORCE"] = "1"
    try:
        p = subprocess.run([exe, "print", str(threads), str(per), str(seed)], env=env, stdin=subprocess.DEVNULL, stdout=subprocess.PIPE, stderr=subprocess.PIPE, timeout=timeout)
    except subprocess.TimeoutExpired:
        raise Inconclusive("watchdog: vh-mt print did not finish in %ds" % timeout)
    return p


def check_register(text, lane, res, stats):
    writes = []
    reads = []
    decisions = []
    fin = None
    for ln in text.splitlines():
        f = ln.split()
        if len(f) != 5:
            continue
        tid, op, v, a, b = int(f[0]), f[1], int(f[2]), int(f[3]), int(f[4])
        if op == "w":
            writes.append((a, b, v))
        elif op == "r":
            reads.append((a, b, v, tid))
        elif op == "d":
            decisions.append((a, b, v, tid))
        elif op == "f":
            fin = (a, b, v)
    if not writes or not reads:
        raise Inconclusive("[%s] register history is empty" % lane)
    # M(t): the latest invocation among writes that responded before t
    by_resp = sorted(writes, key=lambda w: w[1])
    resp_keys = [w[1] for w in by_resp]
    pm = []
    cur = -1
    for w in by_resp:
        cur = max(cur, w[0])
        pm.append(cur)

    def latest_inv_completed_before(t):
        i = bisect.bisect_left(resp_keys, t)
        return pm[i - 1] if i > 0 else -1

    # per value: writes sorted by invocation with prefix max of response
    per_val = {}
    for v in range(4):
        ws = sorted([w for w in writes if w[2] == v])
        keys = [w[0] for w in ws]
        pmax = []
        c = -1
        for w in ws:
            c = max(c, w[1])
            pmax.append(c)
        per_val[v] = (keys, pmax)

    def explainable(v, inv, resp):
        m = latest_inv_completed_before(inv)
        if v == 0 and m == -1:
            return True  # the initial value, nothing has certainly overwritten it
        if v not in per_val:
            return False
        keys, pmax = per_val[v]
        i = bisect.bisect_left(keys, resp)  # writes invoked before the read responded
        if i == 0:
            return False
        return pmax[i - 1] > m or pmax[i - 1] == -1

    bad = 0
    first = None
    distinct_vals = set()
    for (a, b, v, tid) in reads:
        distinct_vals.add(v)
        if v not in (0, 1, 2, 3) or not explainable(v, a, b):
            bad += 1
            if first is None:
                first = "thread %d read value %d in [%d,%d]" % (tid, v, a, b)
    if bad:
        res.violations.append({"sig": "c19:register:stale-or-unwritten-read", "count": bad, "check": "c19", "lane": lane,
                               "example": {"msg": "[%s] %d reads cannot be explained by the initial value or a write that was not certainly overwritten; first: %s" % (lane, bad, first),
                                           "case": {"kind": "c19-run", "lane": lane, "bytes_hex": [], "nums": []}}})
    # decisions (AutoStream::choice for a non-terminal, no colour variables): never Auto, and explained by a value of the
    # register that was possibly current during the call: AlwaysAnsi <- AlwaysAnsi, Always <- Always, Never <- Never or Auto
    preimage = {1: (1,), 2: (2,), 3: (3, 0)}
    bad_d = 0
    first_d = None
    for (a, b, v, tid) in decisions:
        if v not in preimage or not any(explainable(g, a, b) for g in preimage[v]):
            bad_d += 1
            if first_d is None:
                first_d = "thread %d decided %s in [%d,%d]" % (tid, ("Auto", "AlwaysAnsi", "Always", "Never")[v] if 0 <= v < 4 else v, a, b)
    if bad_d:
        res.violations.append({"sig": "c19:register:decision-not-explained-by-one-read", "count": bad_d, "check": "c19", "lane": lane,
                               "example": {"msg": "[%s] %d decisions are Auto or cannot be explained by one value of the global choice that was possibly current during the call; first: %s" % (lane, bad_d, first_d),
                                           "case": {"kind": "c19-run", "lane": lane, "bytes_hex": [], "nums": []}}})
    stats["register_decisions"] = stats.get("register_decisions", 0) + len(decisions)
    if fin is None:
        raise Inconclusive("[%s] no final read in the register history" % lane)
    max_inv = max(w[0] for w in writes)
    if not any(w[2] == fin[2] and w[1] >= max_inv for w in writes):
        res.violation("c19:register:final-value", "[%s] after all writers finished the register holds %d, which is not the value of a last write" % (lane, fin[2]), check="c19", lane=lane)
    stats["register_reads"] = stats.get("register_reads", 0) + len(reads)
    stats["register_writes"] = stats.get("register_writes", 0) + len(writes)
    stats["register_distinct_values_read"] = max(stats.get("register_distinct_values_read", 0), len(distinct_vals))
    stats["register_history_events"] = stats.get("register_history_events", 0) + len(reads) + len(writes)
    return len(reads) + len(writes)


MIRI_ENV = {"MIRIFLAGS": "-Zmiri-disable-isolation"}


PANIC_IN_LIB = re.compile(r"panicked at ([^\s:]*crates/[^\s:]+):(\d+)")


def library_panic(stderr_text):
    """A panic whose location is inside the repository's crates (not the harness): the code under test failed an assertion of its own."""
    m = PANIC_IN_LIB.search(stderr_text)
    if not m:
        return None
    i = stderr_text.find("panicked at")
    return stderr_text[i:i + 300].replace("\n", " ")


def miri_lane(res, tier):
    """Global-choice register + a short print run under Miri's scheduler / weak-memory emulation, many seeds."""
    hd = common.harness_dir()
    nseeds = 16 if tier == "quick" else 128
    env = dict(common.ENV)
    env["CARGO_TARGET_DIR"] = os.path.join(hd, "target-miri")
    common.invalidate_if_sources_changed(env["CARGO_TARGET_DIR"])
    # canary: the interpreter must report the deliberate race, otherwise the lane proves nothing
    e2 = dict(env)
    e2["MIRIFLAGS"] = "-Zmiri-disable-isolation"
    try:
        c = subprocess.run(["cargo", "+nightly", "miri", "run", "--offline", "-q", "-p", "vh-mt", "--", "canary-race"], cwd=hd, env=e2, stdout=subprocess.PIPE, stderr=subprocess.PIPE, timeout=1800)
    except (subprocess.TimeoutExpired, FileNotFoundError) as ex:
        res.add_inconclusive("miri", "miri not usable: %s" % ex)
        return
    if b"Data race" not in c.stderr and b"data race" not in c.stderr:
        res.add_inconclusive("miri", "canary race was not reported by Miri (exit %d): %s" % (c.returncode, c.stderr[-300:].decode("utf-8", "replace")))
        return

    def one(seed):
        e = dict(env)
        e["MIRIFLAGS"] = "-Zmiri-disable-isolation -Zmiri-seed=%d" % seed
        p = subprocess.run(["cargo", "+nightly", "miri", "run", "--offline", "-q", "-p", "vh-mt", "--", "register", "2", "2", "12", str(common.SEED * 1000 + seed)], cwd=hd, env=e, stdout=subprocess.PIPE, stderr=subprocess.PIPE, timeout=1800)
        return seed, p

    stats = {}
    events = 0
    histories = set()
    with cf.ThreadPoolExecutor(max_workers=common.THREADS) as ex:
        for seed, p in ex.map(one, range(nseeds)):
            lane = "miri:register:seed=%d" % seed
            err = p.stderr.decode("utf-8", "replace")
            if "Undefined Behavior" in err or "Data race" in err:
                res.violation("c19:miri:undefined-behaviour", "[%s] Miri reports: %s" % (lane, err.strip().splitlines()[0:6]), check="c19", lane="miri")
                continue
            if p.returncode != 0 and library_panic(err):
                res.violation("c19:panic-in-library", "[%s] %s" % (lane, library_panic(err)), check="c19", lane="miri")
                continue
            if p.returncode != 0:
                res.add_inconclusive(lane, "miri run failed (%d): %s" % (p.returncode, err[-300:]))
                continue
            out = p.stdout.decode()
            histories.add(out)
            events += check_register(out, lane, res, stats)
    res.add_lane("miri:register", "held" if not any(v["lane"] == "miri" or str(v.get("lane", "")).startswith("miri") for v in res.violations) else "violated",
                 {"seeds": nseeds, "history_events": events, "distinct_histories_observed": len(histories), "canary_race_reported": True}, evaluations=events, distinct=len(histories))


def tsan_lane(res, tier):
    hd = common.harness_dir()
    env = dict(common.ENV)
    env["CARGO_TARGET_DIR"] = os.path.join(hd, "target-tsan")
    common.invalidate_if_sources_changed(env["CARGO_TARGET_DIR"])
    env["RUSTFLAGS"] = "-Zsanitizer=thread"
    try:
        b = subprocess.run(["cargo", "+nightly", "build", "--offline", "-Zbuild-std", "--target", "x86_64-unknown-linux-gnu", "--release", "-p", "vh-mt"], cwd=hd, env=env, stdout=subprocess.PIPE, stderr=subprocess.STDOUT, timeout=3600)
    except (subprocess.TimeoutExpired, FileNotFoundError) as ex:
        res.add_inconclusive("tsan", "cannot build with ThreadSanitizer: %s" % ex)
        return
    if b.returncode != 0:
        res.add_inconclusive("tsan", "ThreadSanitizer build failed: %s" % b.stdout.decode("utf-8", "replace")[-600:])
        return
    exe = os.path.join(hd, "target-tsan", "x86_64-unknown-linux-gnu", "release", "vh-mt")
    e = dict(common.ENV)
    e["TSAN_OPTIONS"] = "halt_on_error=1 exitcode=66"
    c = subprocess.run([exe, "canary-race"], env=e, stdout=subprocess.PIPE, stderr=subprocess.PIPE, timeout=600)
    if c.returncode != 66 and b"data race" not in c.stderr:
        res.add_inconclusive("tsan", "canary race was not reported by ThreadSanitizer (exit %d)" % c.returncode)
        return
    reports = 0
    runs = 0
    stats = {}
    for (mode, strip) in (("strip", True), ("pass", False)):
        ee = dict(e)
        ee["NO_COLOR" if strip else "CLICOLOR_FORCE"] = "1"
        p = subprocess.run([exe, "print", "8", "400", str(common.SEED)], env=ee, stdin=subprocess.DEVNULL, stdout=subprocess.PIPE, stderr=subprocess.PIPE, timeout=1800)
        runs += 1
        lane = "tsan:print:%s" % mode
        if p.returncode == 66 or b"WARNING: ThreadSanitizer" in p.stderr:
            reports += 1
            res.violation("c19:tsan:data-race", "[%s] %s" % (lane, p.stderr.decode("utf-8", "replace")[:600]), check="c19", lane="tsan")
        else:
            # stderr also carries records: split the sanitizer-free stream normally
            check_pipe(p.stdout, "stdout", 8, 400, strip, res, lane, stats)
            check_pipe(p.stderr, "stderr", 8, 400, strip, res, lane, stats)
    p = subprocess.run([exe, "register", "3", "5", "3000", str(common.SEED)], env=e, stdout=subprocess.PIPE, stderr=subprocess.PIPE, timeout=1800)
    runs += 1
    if p.returncode == 66 or b"WARNING: ThreadSanitizer" in p.stderr:
        res.violation("c19:tsan:data-race", "[tsan:register] %s" % p.stderr.decode("utf-8", "replace")[:600], check="c19", lane="tsan")
    else:
        check_register(p.stdout.decode(), "tsan:register", res, stats)
    stats.pop("patterns", None)
    res.add_lane("tsan", "held", dict(stats, runs=runs, race_reports=reports, canary_race_reported=True), evaluations=stats.get("records", 0) + stats.get("register_history_events", 0))


def run(res, tier):
    td = common.cargo_build(["vh-mt"], "release")
    exe = os.path.join(td, "release", "vh-mt")
    if tier == "quick":
        seeds, per, tcounts = 3, 2000, (2, 4, 8, 16)
        reg_ops = 20000
    else:
        seeds, per, tcounts = 20, 20000, (2, 4, 8, 16)
        reg_ops = 200000
    stats = {}
    jobs = []
    for s in range(seeds):
        for t in tcounts:
            for strip in (True, False):
                jobs.append((common.SEED * 100 + s, t, strip))
    total_lines = 0
    # children are themselves multi-threaded: run a few at a time so that each still sees real parallelism
    with cf.ThreadPoolExecutor(max_workers=3) as ex:
        futs = [(j, ex.submit(run_print, exe, j[1], per, j[0], j[2])) for j in jobs]
        for (seed, t, strip), f in futs:
            p = f.result()
            lane = "native:print:threads=%d:%s:seed=%d" % (t, "strip" if strip else "pass-through", seed)
            if p.returncode != 0 and library_panic(p.stderr.decode("utf-8", "replace")):
                res.violation("c19:panic-in-library", "[%s] %s" % (lane, library_panic(p.stderr.decode("utf-8", "replace"))), check="c19", lane=lane)
                continue
            if p.returncode != 0:
                raise Inconclusive("[%s] vh-mt exited with %d: %s" % (lane, p.returncode, p.stderr[-300:]))
            total_lines += check_pipe(p.stdout, "stdout", t, per, strip, res, lane, stats)
            total_lines += check_pipe(p.stderr, "stderr", t, per, strip, res, lane, stats)
    # the same workload in a build with anstream's `test` feature (the print macros then go through std's print machinery,
    # the arm that `cargo test` users get): one call still produces one contiguous record
    td2 = common.cargo_build(["vh-mt"], "release", target_dir="target-mtcap", extra_args=["--features", "capture"])
    exe2 = os.path.join(td2, "release", "vh-mt")
    cap_jobs = [(common.SEED * 100 + 50 + s, t, strip) for s in range(1 if tier == "quick" else 4) for t in (4, 16) for strip in (True, False)]
    cstats = {}
    clines = 0
    with cf.ThreadPoolExecutor(max_workers=3) as ex:
        futs = [(j, ex.submit(run_print, exe2, j[1], per, j[0], j[2])) for j in cap_jobs]
        for (seed, t, strip), f in futs:
            p = f.result()
            lane = "native:print:feature-test:threads=%d:%s:seed=%d" % (t, "strip" if strip else "pass-through", seed)
            if p.returncode != 0:
                raise Inconclusive("[%s] vh-mt exited with %d: %s" % (lane, p.returncode, p.stderr[-300:]))
            clines += check_pipe(p.stdout, "stdout", t, per, strip, res, lane, cstats)
            clines += check_pipe(p.stderr, "stderr", t, per, strip, res, lane, cstats)
    cpat = cstats.pop("patterns", set())
    res.add_lane("native:print:feature-test", "held", dict(cstats, distinct_switch_patterns=len(cpat), runs=len(cap_jobs), lines_checked=clines), evaluations=cstats.get("records", 0), distinct=cstats.get("records", 0))
    patterns = stats.pop("patterns", set())
    observed = dict(stats, distinct_switch_patterns=len(patterns), runs=len(jobs), lines_checked=total_lines)
    if stats.get("thread_switches", 0) < 100:
        res.add_inconclusive("native:print", "only %d thread switches were observed between consecutive records: the schedule was not hostile enough" % stats.get("thread_switches", 0))
    res.add_lane("native:print", "held", observed, evaluations=stats.get("records", 0), distinct=stats.get("records", 0))
    # register history, native
    rstats = {}
    ev = 0
    for s in range(3 if tier == "quick" else 10):
        p = subprocess.run([exe, "register", "3", "5", str(reg_ops // 8), str(common.SEED * 100 + s)], env=common.ENV, stdout=subprocess.PIPE, stderr=subprocess.PIPE, timeout=1800)
        if p.returncode != 0 and library_panic(p.stderr.decode("utf-8", "replace")):
            res.violation("c19:panic-in-library", "[native:register:seed=%d] %s" % (s, library_panic(p.stderr.decode("utf-8", "replace"))), check="c19", lane="native:register")
            continue
        if p.returncode != 0:
            raise Inconclusive("vh-mt register exited with %d: %s" % (p.returncode, p.stderr[-300:]))
        ev += check_register(p.stdout.decode(), "native:register:seed=%d" % s, res, rstats)
    res.add_lane("native:register", "held", rstats, evaluations=ev, distinct=ev)
    # the same history in a build with debug assertions (the library's own debug_assert!s are live)
    tdd = common.cargo_build(["vh-mt"], "dev")
    exed = os.path.join(tdd, "debug", "vh-mt")
    dstats = {}
    evd = 0
    for s in range(2 if tier == "quick" else 6):
        p = subprocess.run([exed, "register", "4", "4", str(reg_ops // 16), str(common.SEED * 100 + 70 + s)], env=common.ENV, stdout=subprocess.PIPE, stderr=subprocess.PIPE, timeout=1800)
        err = p.stderr.decode("utf-8", "replace")
        if p.returncode != 0 and library_panic(err):
            res.violation("c19:panic-in-library", "[native:register:debug-assertions:seed=%d] %s" % (s, library_panic(err)), check="c19", lane="native:register:debug-assertions")
            continue
        if p.returncode != 0:
            raise Inconclusive("vh-mt (dev profile) register exited with %d: %s" % (p.returncode, err[-300:]))
        evd += check_register(p.stdout.decode(), "native:register:debug-assertions:seed=%d" % s, res, dstats)
    res.add_lane("native:register:debug-assertions", "held", dstats, evaluations=evd, distinct=evd)
    # first use of the global choice in a fresh process, racing with a write: many short children, delay swept
    nchild = 800 if tier == "quick" else 8000

    def first(k):
        # the writer's delay (spin iterations after a spin rendezvous) sweeps the few-nanosecond window around the readers' first load
        return k, subprocess.run([exe, "first", "6", str(k % 24)], env=common.ENV, stdout=subprocess.PIPE, stderr=subprocess.PIPE, timeout=120)

    outcomes = {}
    bad_final = bad_read = 0
    with cf.ThreadPoolExecutor(max_workers=4) as ex:
        for k, p in ex.map(first, range(nchild)):
            if p.returncode != 0:
                raise Inconclusive("vh-mt first exited with %d: %s" % (p.returncode, p.stderr[-200:]))
            reads, fin = p.stdout.decode().split()
            rs = [int(x) for x in reads.split(",")]
            outcomes[(tuple(sorted(set(rs))), fin)] = outcomes.get((tuple(sorted(set(rs))), fin), 0) + 1
            if fin != "3":
                bad_final += 1
            if any(r not in (0, 3) for r in rs):
                bad_read += 1
    if bad_final:
        res.violations.append({"sig": "c19:register:first-use-final-value", "count": bad_final, "check": "c19", "lane": "native:first-use",
                               "example": {"msg": "in %d of %d fresh processes the global choice did not hold the written value (Never) after the only writer and all first-time readers had finished" % (bad_final, nchild),
                                           "case": {"kind": "c19-run", "lane": "native:first-use", "bytes_hex": [], "nums": []}}})
    if bad_read:
        res.violations.append({"sig": "c19:register:first-use-unwritten-read", "count": bad_read, "check": "c19", "lane": "native:first-use",
                               "example": {"msg": "in %d of %d fresh processes a first-time reader saw a value that is neither the initial one nor the written one" % (bad_read, nchild),
                                           "case": {"kind": "c19-run", "lane": "native:first-use", "bytes_hex": [], "nums": []}}})
    res.add_lane("native:first-use", "held" if not (bad_final or bad_read) else "violated",
                 {"fresh_processes": nchild, "distinct_outcomes(values read, final)": {"%s -> %s" % (list(k[0]), k[1]): v for k, v in outcomes.items()}}, evaluations=nchild, distinct=len(outcomes))
    res.samples.append({"record_strip_mode": expected_record(3, 5, True).decode(), "record_pass_through_mode": expected_record(3, 5, False).decode("latin1"), "long_record_head": expected_record(0, 4, True)[:40].decode(), "apis": "print!, println!, eprintln!, write!(stdout()), stdout().write_all, writeln!(stderr()), write_fmt, stdout().lock() + two writes"})
    res.samples.append({"register_history_line_format": "thread op(w|r|f) value t_invocation t_response", "example": "0 w 3 9 10"})
    miri_lane(res, tier)
    if tier == "thorough":
        tsan_lane(res, tier)


def replay(doc):
    res = common.Result("C19", "quick", {"rule": "", "level": "exploration"})
    run(res, "quick")
    for v in res.violations:
        if v["sig"] == doc.get("sig"):
            return {"sig": v["sig"], "msg": v["example"]["msg"]}
    return None
