"""C04: no panic, overflow or memory error on any untrusted input.

The workload (vcore::c04 and the bounded sets of the other checks) is run under several instrumentation lanes:
  dbg      dev profile: debug assertions + overflow checks (the crate's own checked from_utf8 / debug_assert!s)
  rel      release: from_utf8_unchecked really unchecked, the monitor validates returned pieces itself
  asan     AddressSanitizer (nightly), halt on first report
  miri     Miri: uninitialised reads, invalid enum from transmute, out-of-bounds, invalid str
  memcheck valgrind on the release binary (thorough tier)
Each sanitizer lane starts with a canary that must be reported, otherwise the lane is inconclusive."""
import concurrent.futures as cf
import json
import os
import re
import shutil
import subprocess
import tempfile
import threading

from . import common
from .common import Inconclusive

# signatures of the functional checks that are C04's business when they show up in any lane
C04_SIG = re.compile(r"panic|invalid-utf8|out-of-range|:pieces|invalid-piece")

TRIPLE = "x86_64-unknown-linux-gnu"


def _last_json(out):
    lines = [l for l in out.decode("utf-8", "replace").splitlines() if l.strip().startswith("{")]
    if not lines:
        return None
    try:
        return json.loads(lines[-1])
    except Exception:  # noqa
        return None


def _add(res, lane, d, only_c04):
    """merge a monitor summary, keeping only the signatures that concern C04 when `only_c04`"""
    if only_c04:
        d = dict(d)
        d["violations"] = [v for v in d.get("violations", []) if C04_SIG.search(v["sig"])]
    res.add_stats(lane, d, check=d.get("check"))


def lane_native(res, tier, profile):
    lane = "dbg" if profile == "debug" else "rel"
    td = common.cargo_build(["vh-mem"], "release" if profile == "release" else "dev")
    exe = os.path.join(td, "release" if profile == "release" else "debug", "vh-mem")
    env = dict(common.ENV)
    env["RUST_BACKTRACE"] = "0"
    if profile == "debug":
        c = subprocess.run([exe, "canary", "overflow"], env=env, stdout=subprocess.PIPE, stderr=subprocess.PIPE, timeout=120)
        if c.returncode != 101 or b"overflow" not in c.stderr:
            res.add_inconclusive(lane, "overflow canary did not trap in the debug build (exit %d): overflow checks are not live" % c.returncode)
            return
    work = tempfile.mkdtemp(prefix="vh-c04-", dir=common.harness_dir())
    try:
        env["VH_C14_OUT"] = os.path.join(work, "svg.jsonl")
        plan = [("c04", tier)]
        if profile == "debug":
            # the bounded sets of the other checks, under debug assertions and overflow checks
            plan += [(c, "quick" if tier == "quick" else "quick") for c in ("c01", "c02", "c03", "c06", "c07", "c08", "c11", "c12", "c15", "c14")]
            plan += [("c05", "tiny"), ("c10", "tiny"), ("c13", "tiny")]
        for check, t in plan:
            threads = "1" if check == "c14" else str(common.THREADS)
            cmd = [exe, "run", check, "--tier", t, "--seed", str(common.SEED), "--threads", threads]
            try:
                p = subprocess.run(cmd, env=env, stdout=subprocess.PIPE, stderr=subprocess.PIPE, timeout=3 * 3600)
            except subprocess.TimeoutExpired:
                res.add_inconclusive("%s:%s" % (lane, check), "watchdog")
                continue
            d = _last_json(p.stdout)
            if p.returncode != 0 or d is None:
                # the process died: a panic outside catch_unwind, an abort, a signal
                hp = common.harness_panic(p.stderr.decode("utf-8", "replace"))
                if hp:
                    res.add_inconclusive("%s:%s" % (lane, check), "the monitor's own code panicked at %s: %s" % (hp, p.stderr.decode("utf-8", "replace")[-300:]))
                    continue
                res.violation("c04:%s:process-died" % lane, "[%s] `%s` exited with %d: %s" % (lane, " ".join(cmd[1:]), p.returncode, p.stderr.decode("utf-8", "replace")[-600:]), check="c04", lane=lane,
                              case={"kind": "c04-lane", "lane": lane, "cmd": cmd[1:], "bytes_hex": [], "nums": []})
                continue
            _add(res, "%s:%s" % (lane, check), d, only_c04=(check != "c04"))
    finally:
        shutil.rmtree(work, ignore_errors=True)


def lane_asan(res, tier):
    hd = common.harness_dir()
    env = dict(common.ENV)
    env["CARGO_TARGET_DIR"] = os.path.join(hd, "target-asan")
    common.invalidate_if_sources_changed(env["CARGO_TARGET_DIR"])
    env["RUSTFLAGS"] = "-Zsanitizer=address -Cforce-frame-pointers=yes"
    try:
        b = subprocess.run(["cargo", "+nightly", "build", "--offline", "--release", "--target", TRIPLE, "-p", "vh-mem"], cwd=hd, env=env, stdout=subprocess.PIPE, stderr=subprocess.STDOUT, timeout=3600)
    except (subprocess.TimeoutExpired, FileNotFoundError) as ex:
        res.add_inconclusive("asan", "cannot build with AddressSanitizer: %s" % ex)
        return
    if b.returncode != 0:
        res.add_inconclusive("asan", "AddressSanitizer build failed: %s" % b.stdout.decode("utf-8", "replace")[-500:])
        return
    exe = os.path.join(hd, "target-asan", TRIPLE, "release", "vh-mem")
    e = dict(common.ENV)
    e["ASAN_OPTIONS"] = "halt_on_error=1:abort_on_error=0:detect_leaks=0:exitcode=77"
    e["RUST_BACKTRACE"] = "0"
    c = subprocess.run([exe, "canary", "heap-overflow"], env=e, stdout=subprocess.PIPE, stderr=subprocess.PIPE, timeout=300)
    if b"AddressSanitizer: heap-buffer-overflow" not in c.stderr:
        res.add_inconclusive("asan", "canary overflow was not reported (exit %d): sanitizer not live" % c.returncode)
        return
    work = tempfile.mkdtemp(prefix="vh-c04a-", dir=hd)
    try:
        e["VH_C14_OUT"] = os.path.join(work, "svg.jsonl")
        plan = [("c04", tier), ("c01", "quick"), ("c02", "quick"), ("c03", "quick"), ("c06", "quick"), ("c07", "quick"), ("c05", "tiny"), ("c14", "quick"), ("c15", "quick")]
        for check, t in plan:
            threads = "1" if check == "c14" else str(common.THREADS)
            cmd = [exe, "run", check, "--tier", t, "--seed", str(common.SEED), "--threads", threads]
            try:
                p = subprocess.run(cmd, env=e, stdout=subprocess.PIPE, stderr=subprocess.PIPE, timeout=3 * 3600)
            except subprocess.TimeoutExpired:
                res.add_inconclusive("asan:%s" % check, "watchdog")
                continue
            err = p.stderr.decode("utf-8", "replace")
            if "ERROR: AddressSanitizer" in err:
                first = [l for l in err.splitlines() if "AddressSanitizer" in l or " #0 " in l or " #1 " in l or " #2 " in l][:6]
                res.violation("c04:asan:report", "[asan:%s] %s" % (check, " | ".join(first)), check="c04", lane="asan", case={"kind": "c04-lane", "lane": "asan", "cmd": cmd[1:], "bytes_hex": [], "nums": []})
                continue
            d = _last_json(p.stdout)
            if (p.returncode != 0 or d is None) and common.harness_panic(err):
                res.add_inconclusive("asan:%s" % check, "the monitor's own code panicked at %s" % common.harness_panic(err))
                continue
            if p.returncode != 0 or d is None:
                res.violation("c04:asan:process-died", "[asan:%s] exited with %d: %s" % (check, p.returncode, err[-400:]), check="c04", lane="asan", case={"kind": "c04-lane", "lane": "asan", "cmd": cmd[1:], "bytes_hex": [], "nums": []})
                continue
            _add(res, "asan:%s" % check, d, only_c04=(check != "c04"))
        res.lanes.append({"lane": "asan:canary", "verdict": "held", "observed": {"canary_heap_overflow_reported": True}})
    finally:
        shutil.rmtree(work, ignore_errors=True)


def lane_miri(res, tier):
    hd = common.harness_dir()
    env = dict(common.ENV)
    env["CARGO_TARGET_DIR"] = os.path.join(hd, "target-miri")
    common.invalidate_if_sources_changed(env["CARGO_TARGET_DIR"])
    env["MIRIFLAGS"] = "-Zmiri-disable-isolation"
    env["RUST_BACKTRACE"] = "0"
    base = ["cargo", "+nightly", "miri", "run", "--offline", "-q", "-p", "vh-mem", "--"]
    try:
        c = subprocess.run(base + ["canary", "uninit"], cwd=hd, env=env, stdout=subprocess.PIPE, stderr=subprocess.PIPE, timeout=3600)
    except (subprocess.TimeoutExpired, FileNotFoundError) as ex:
        res.add_inconclusive("miri", "miri not usable: %s" % ex)
        return
    if b"Undefined Behavior" not in c.stderr:
        res.add_inconclusive("miri", "canary (uninitialised read) was not reported by Miri (exit %d): %s" % (c.returncode, c.stderr[-300:].decode("utf-8", "replace")))
        return
    nsh = 16
    if tier == "quick":
        # the longer c02 jobs first (shard 15 is the table comparison), then ten short c04 jobs
        # (sixteen jobs = one wave on sixteen cores; the c04 shards chosen cover all eight input kinds)
        plan = [("c02", s) for s in (15, 0, 3, 6, 9, 12)] + [("c04", s) for s in (0, 1, 2, 3, 4, 5, 6, 7, 11, 15)]
        seeds = [common.SEED]
    else:
        # the workloads that reach the crates containing `unsafe` (parser, strip adapters, colour renderer); the git and
        # LS_COLORS parsers are safe code throughout and are only driven by the c04 workload here
        plan = [(c, s) for c in ("c07", "c05", "c02", "c01", "c06", "c03", "c04") for s in range(nsh)]
        seeds = [common.SEED, common.SEED + 1000]
    jobs = [(c, s, sd) for sd in seeds for (c, s) in plan if sd == common.SEED or c in ("c04", "c02")]

    def one(job):
        check, shard, seed = job
        cmd = base + ["run", check, "--tier", "tiny", "--seed", str(seed), "--threads", "1", "--pshard", "%d/%d" % (shard, nsh)]
        try:
            p = subprocess.run(cmd, cwd=hd, env=env, stdout=subprocess.PIPE, stderr=subprocess.PIPE, timeout=3 * 3600)
        except subprocess.TimeoutExpired:
            return job, None, "watchdog"
        return job, p, None

    agg = {}
    with cf.ThreadPoolExecutor(max_workers=common.THREADS) as ex:
        for (check, shard, seed), p, why in ex.map(one, jobs):
            lane = "miri:%s" % check
            if p is None:
                res.add_inconclusive("%s:shard%d" % (lane, shard), why)
                continue
            err = p.stderr.decode("utf-8", "replace")
            if "Undefined Behavior" in err:
                lines = [l.strip() for l in err.splitlines() if l.strip()]
                i = next((k for k, l in enumerate(lines) if "Undefined Behavior" in l), 0)
                res.violation("c04:miri:undefined-behaviour", "[%s shard %d] %s" % (lane, shard, " | ".join(lines[i:i + 6])), check="c04", lane="miri",
                              case={"kind": "c04-lane", "lane": "miri", "cmd": ["run", check, "--tier", "tiny", "--seed", str(seed), "--threads", "1", "--pshard", "%d/%d" % (shard, nsh)], "bytes_hex": [], "nums": []})
                continue
            d = _last_json(p.stdout)
            if p.returncode != 0 or d is None:
                res.add_inconclusive("%s:shard%d" % (lane, shard), "miri run failed (%d): %s" % (p.returncode, err[-300:]))
                continue
            a = agg.setdefault(check, {"check": check, "evaluations": 0, "distinct_nontrivial": 0, "violations": [], "counters": {}, "samples": []})
            a["evaluations"] += d["evaluations"]
            a["distinct_nontrivial"] += d["distinct_nontrivial"]
            a["violations"] += [v for v in d.get("violations", []) if check == "c04" or C04_SIG.search(v["sig"])]
            a["counters"]["shards_interpreted"] = a["counters"].get("shards_interpreted", 0) + 1
    for check, a in agg.items():
        res.add_stats("miri:%s" % check, a, check=check)
    res.lanes.append({"lane": "miri:canary", "verdict": "held", "observed": {"canary_uninitialised_read_reported": True}})


def lane_memcheck(res, tier):
    if shutil.which("valgrind") is None:
        res.add_inconclusive("memcheck", "valgrind not installed")
        return
    td = common.cargo_build(["vh-mem"], "release")
    exe = os.path.join(td, "release", "vh-mem")
    env = dict(common.ENV)
    env["RUST_BACKTRACE"] = "0"
    vg = ["valgrind", "-q", "--error-exitcode=99", "--errors-for-leak-kinds=none"]
    c = subprocess.run(vg + [exe, "canary", "heap-overflow"], env=env, stdout=subprocess.PIPE, stderr=subprocess.PIPE, timeout=600)
    if b"Invalid read" not in c.stderr:
        res.add_inconclusive("memcheck", "canary overflow was not reported by valgrind (exit %d)" % c.returncode)
        return
    nsh = common.THREADS
    jobs = [("c04", "quick", s) for s in range(nsh)] + [("c02", "tiny", s) for s in range(nsh)] + [("c01", "tiny", s) for s in range(0, nsh, 4)]

    def one(job):
        check, t, shard = job
        cmd = vg + [exe, "run", check, "--tier", t, "--seed", str(common.SEED), "--threads", "1", "--pshard", "%d/%d" % (shard, nsh)]
        try:
            return job, subprocess.run(cmd, env=env, stdout=subprocess.PIPE, stderr=subprocess.PIPE, timeout=4 * 3600)
        except subprocess.TimeoutExpired:
            return job, None

    agg = {}
    with cf.ThreadPoolExecutor(max_workers=common.THREADS) as ex:
        for (check, t, shard), p in ex.map(one, jobs):
            if p is None:
                res.add_inconclusive("memcheck:%s:shard%d" % (check, shard), "watchdog")
                continue
            err = p.stderr.decode("utf-8", "replace")
            if p.returncode == 99 or "Invalid read" in err or "Invalid write" in err or "uninitialised" in err:
                res.violation("c04:memcheck:error", "[memcheck:%s shard %d] %s" % (check, shard, " | ".join(err.splitlines()[:8])), check="c04", lane="memcheck",
                              case={"kind": "c04-lane", "lane": "memcheck", "cmd": ["run", check, "--tier", t, "--seed", str(common.SEED), "--threads", "1", "--pshard", "%d/%d" % (shard, nsh)], "bytes_hex": [], "nums": []})
                continue
            d = _last_json(p.stdout)
            if p.returncode != 0 or d is None:
                res.add_inconclusive("memcheck:%s:shard%d" % (check, shard), "exit %d: %s" % (p.returncode, err[-300:]))
                continue
            a = agg.setdefault(check, {"check": check, "evaluations": 0, "distinct_nontrivial": 0, "violations": [], "counters": {}})
            a["evaluations"] += d["evaluations"]
            a["distinct_nontrivial"] += d["distinct_nontrivial"]
            a["violations"] += [v for v in d.get("violations", []) if check == "c04" or C04_SIG.search(v["sig"])]
            a["counters"]["shards_under_valgrind"] = a["counters"].get("shards_under_valgrind", 0) + 1
    for check, a in agg.items():
        res.add_stats("memcheck:%s" % check, a, check=check)
    res.lanes.append({"lane": "memcheck:canary", "verdict": "held", "observed": {"canary_invalid_read_reported": True}})


class _Locked:
    """The lanes run side by side (each has its own build directory and binary); the shared result object is only
    touched through this proxy, one call at a time."""

    def __init__(self, res):
        self._res = res
        self._lock = threading.RLock()

    def __getattr__(self, name):
        a = getattr(self._res, name)
        if not callable(a):
            return a
        lock = self._lock

        def call(*args, **kw):
            with lock:
                return a(*args, **kw)
        return call


def run(res, tier):
    common.harness_dir()
    shared = _Locked(res)

    def native():
        lane_native(shared, tier, "release")
        lane_native(shared, tier, "debug")

    with cf.ThreadPoolExecutor(max_workers=3) as ex:
        futs = [ex.submit(native), ex.submit(lane_asan, shared, tier), ex.submit(lane_miri, shared, tier)]
        errs = []
        for f in futs:
            try:
                f.result()
            except Exception as e:  # noqa  (an Inconclusive of one lane must not hide what the others saw)
                errs.append(e)
    for e in errs:
        if isinstance(e, Inconclusive):
            res.add_inconclusive("lane", str(e))
        else:
            raise e
    if tier == "thorough":
        lane_memcheck(res, tier)
    res.samples.append({"lanes": "rel, dbg (debug assertions + overflow checks), asan, miri" + (", memcheck" if tier == "thorough" else ""),
                        "workload": "arbitrary bytes, hostile streams, boundary-rich sequences (32/33 parameters, 2-4 intermediates, 15-18 OSC fields, ~1024-byte OSC), arbitrary Unicode, SGR text, near-valid git / LS_COLORS strings; plus the bounded-exhaustive sets of C01/C02/C03"})


def replay(doc):
    case = doc["case"]
    if case.get("kind") == "c04-lane":
        res = common.Result("C04", "quick", {"rule": "", "level": "exploration"})
        {"dbg": lambda: lane_native(res, "quick", "debug"), "rel": lambda: lane_native(res, "quick", "release"), "asan": lambda: lane_asan(res, "quick"),
         "miri": lambda: lane_miri(res, "quick"), "memcheck": lambda: lane_memcheck(res, "quick")}[case["lane"]]()
        for v in res.violations:
            if v["sig"] == doc.get("sig"):
                return {"sig": v["sig"], "msg": v["example"]["msg"]}
        return None
    # an input-level case: replay under the debug build (checked conversions) and the release build
    for profile in ("dev", "release"):
        td = common.cargo_build(["vh-mem"], profile)
        exe = os.path.join(td, "release" if profile == "release" else "debug", "vh-mem")
        check = doc.get("check") or "c04"
        d = common.run_json([exe, "replay", check] + common.case_args(case), timeout=600, ok_codes=(0, 1, 101))
        if d.get("replay") != "held":
            return d
    return None
