"""Property table: how each property is decided (lanes), what counts as a non-trivial case, assumptions."""
from . import common
from .common import Inconclusive

QUICK_TIMEOUT = 1500
THOROUGH_TIMEOUT = 4 * 3600


def _timeout(tier):
    return QUICK_TIMEOUT if tier == "quick" else THOROUGH_TIMEOUT


def vh_lane(res, tier, check, lane="rel", profile="release", threads=None, extra=None):
    common.cargo_build(["vh"], profile)
    cmd = [common.bin_path("vh", profile), "run", check, "--tier", tier, "--seed", str(common.SEED), "--threads", str(threads or common.THREADS)]
    cmd += list(extra or [])
    d = common.run_json(cmd, timeout=_timeout(tier))
    res.add_stats("%s:%s" % (lane, check), d, check=check)
    return d


def vh_replay(check):
    runner = common.vh_replay_runner(check)

    def replay_doc(doc):
        return runner(doc["case"])

    return replay_doc, runner


def simple(check):
    def run(res, tier):
        vh_lane(res, tier, check)

    rd, rc = vh_replay(check)
    return {"run": run, "replay": rd, "replay_case": rc}


def setup():
    common.cargo_build(["vh"], "release")


PROPS = {}


def reg(pid, title, level, rule, assumptions, impl, exhaustive=None):
    d = {"title": title, "level": level, "rule": rule, "assumptions": assumptions, "exhaustive": exhaustive or {}}
    d.update(impl)
    PROPS[pid] = d


A_UTF8_STRIP = (
    "for input that is not valid UTF-8 the statement fixes only structural facts; the visible-text comparison is made on the "
    "ASCII projection and accepts both decoder policies (offending byte re-processed / swallowed) - DESIGN 8.1"
)
A_REFVT = "trusted base: the hand-written reference machine refmodel::vt (Williams diagram + the crate's documented deviations), which shares no code or table with /repo"

reg(
    "C01",
    "Stripping removes exactly the escape sequences and nothing else",
    "exploration",
    "cases = byte strings fed to strip_str/StripStr/strip_bytes/StripBytes/StripStream/AutoStream::never: bounded-exhaustive "
    "enumeration over CHARS27, BYTES40 and BYTES20 (distinct by construction, duplicates between the enumerations not counted) plus "
    "seeded grammar streams (distinct by 64-bit hash); non-trivial = contains at least one byte outside printable ASCII "
    "(control, ESC, DEL or >= 0x80)",
    [A_REFVT, A_UTF8_STRIP],
    simple("c01"),
)

reg(
    "C02",
    "The parser reports exactly the events of the VT500 state machine",
    "exploration",
    "cases = (a) the 14x256 + 256 cells of state_change, (b) byte streams fed to Parser::advance with a recording Perform: "
    "bounded-exhaustive over BYTES40/BYTES20 plus seeded grammar streams, (c) prefix+CAN/SUB+stream replays with the prefix ending "
    "in each of the 14 states / mid-character; non-trivial = stream contains a byte outside printable ASCII; cells and enumerated "
    "strings are distinct by construction, random streams by 64-bit hash",
    [A_REFVT, "malformed UTF-8 follows the contract of the utf8parse decoder the crate documents as out-of-band (one U+FFFD per rejected byte, byte consumed) - DESIGN 8.2",
     "beyond the documented limits the first 32 numbers / 2 intermediates / 16 OSC fields are kept - DESIGN 8.3"],
    simple("c02"),
)

reg(
    "C03",
    "Incremental processing equals one-shot processing for every chunking",
    "exploration",
    "cases = (input, partition) pairs run through StripStr (cuts moved to char boundaries), StripBytes, StripStream::write_all and "
    "WinconBytes::extract_next and compared with the one-shot run of the same entry point, final adapter state compared by == and, "
    "when unequal, by 10 distinguishing suffixes; all 2^(n-1) partitions for enumerated short strings (distinct by construction), "
    "7 chunkers + one targeted cut per parser state for long streams (distinct by hash of input+cuts); non-trivial = the input "
    "contains a byte outside printable ASCII and the partition has at least one cut",
    [A_REFVT + " (used only to classify cut positions for the coverage matrix)"],
    simple("c03"),
)
