"""Property table: how each property is decided (lanes), what counts as a non-trivial case, assumptions."""
import os
from . import common
from .common import Inconclusive

QUICK_TIMEOUT = 1500
THOROUGH_TIMEOUT = 4 * 3600


def _timeout(tier):
    return QUICK_TIMEOUT if tier == "quick" else THOROUGH_TIMEOUT


def vh_lane(res, tier, check, lane="rel", profile="release", threads=None, extra=None):
    common.cargo_build(["vh"], profile)
    cmd = [common.bin_path("vh", profile), "run", check, "--tier", tier, "--seed", str(common.SEED), "--threads", str(threads or common.THREADS)]
    cmd += list(extra or [])
    d = common.run_json(cmd, timeout=_timeout(tier))
    res.add_stats("%s:%s" % (lane, check), d, check=check)
    return d


def vh_replay(check):
    runner = common.vh_replay_runner(check)

    def replay_doc(doc):
        return runner(doc["case"])

    return replay_doc, runner


def simple(check, require_full=()):
    def run(res, tier):
        d = vh_lane(res, tier, check)
        # coverage gates: a run that did not reach every parser state with the event the property is about is
        # recorded as inconclusive for that aspect (never as a violation, never silently as a pass)
        for name in require_full:
            v = (d.get("arrays") or {}).get(name)
            if not v or any(x == 0 for x in v):
                res.add_inconclusive("coverage:%s" % name, "not every cell of %s was exercised: %s" % (name, v))

    rd, rc = vh_replay(check)
    return {"run": run, "replay": rd, "replay_case": rc}


def setup():
    """Build the monitor binaries of every lane once, so that the checks themselves only pay for running: the release and
    dev-profile binaries, the AddressSanitizer build and the Miri sysroot + interpreter build.  Only the first build is
    required to succeed here; a lane whose tool is missing reports itself as inconclusive when its check runs."""
    import concurrent.futures as cf
    import subprocess
    common.cargo_build(["vh"], "release")
    hd = common.harness_dir()

    def native():
        for pk in ("vh-mem", "vh-env", "vh-mt"):
            common.cargo_build([pk], "release")
        common.cargo_build(["vh-mem"], "dev")
        common.cargo_build(["vh-mt"], "dev")

    def mtcap():
        common.cargo_build(["vh-mt"], "release", target_dir="target-mtcap", extra_args=["--features", "capture"])

    def asan():
        env = dict(common.ENV)
        env["CARGO_TARGET_DIR"] = os.path.join(hd, "target-asan")
        env["RUSTFLAGS"] = "-Zsanitizer=address -Cforce-frame-pointers=yes"
        common.invalidate_if_sources_changed(env["CARGO_TARGET_DIR"])
        subprocess.run(["cargo", "+nightly", "build", "--offline", "--release", "--target", "x86_64-unknown-linux-gnu", "-p", "vh-mem"], cwd=hd, env=env, stdout=subprocess.PIPE, stderr=subprocess.STDOUT, timeout=3600)

    def miri():
        env = dict(common.ENV)
        env["CARGO_TARGET_DIR"] = os.path.join(hd, "target-miri")
        env["MIRIFLAGS"] = "-Zmiri-disable-isolation"
        common.invalidate_if_sources_changed(env["CARGO_TARGET_DIR"])
        for pk, arg in (("vh-mem", ["canary", "uninit"]), ("vh-mt", ["canary-race"])):
            subprocess.run(["cargo", "+nightly", "miri", "run", "--offline", "-q", "-p", pk, "--"] + arg, cwd=hd, env=env, stdout=subprocess.PIPE, stderr=subprocess.PIPE, timeout=3600)

    with cf.ThreadPoolExecutor(max_workers=4) as ex:
        futs = {ex.submit(f): f.__name__ for f in (native, mtcap, asan, miri)}
        for f, name in futs.items():
            try:
                f.result()
            except Exception as e:  # noqa
                print("note: setup could not prepare the %s lane (%s); its check will say so" % (name, str(e)[:200]))


PROPS = {}


def reg(pid, title, level, rule, assumptions, impl, exhaustive=None):
    d = {"title": title, "level": level, "rule": rule, "assumptions": assumptions, "exhaustive": exhaustive or {}}
    d.update(impl)
    PROPS[pid] = d


A_UTF8_STRIP = (
    "for input that is not valid UTF-8 the statement fixes only structural facts; the visible-text comparison is made on the "
    "ASCII projection and accepts both decoder policies (offending byte re-processed / swallowed) - DESIGN 8.1"
)
A_REFVT = "trusted base: the hand-written reference machine refmodel::vt (Williams diagram + the crate's documented deviations), which shares no code or table with /repo"

reg(
    "C01",
    "Stripping removes exactly the escape sequences and nothing else",
    "exploration",
    "cases = byte strings fed to strip_str/StripStr/strip_bytes/StripBytes/StripStream/AutoStream::never: bounded-exhaustive "
    "enumeration over CHARS27, BYTES40 and BYTES20 (distinct by construction, duplicates between the enumerations not counted) plus "
    "seeded grammar streams (distinct by 64-bit hash); non-trivial = contains at least one byte outside printable ASCII "
    "(control, ESC, DEL or >= 0x80); plus scripts of literal-only write!, write_all and write!(\"{}\") calls over 30 sequence / text "
    "fragments and three cut-short characters on StripStream and AutoStream::never (counter literal_fragment_scripts; counted as "
    "evaluations, not as distinct cases)",
    [A_REFVT, A_UTF8_STRIP],
    simple("c01", require_full=("printable_or_ws_byte_arrival_by_state",)),
)

reg(
    "C02",
    "The parser reports exactly the events of the VT500 state machine",
    "exploration",
    "cases = (a) the 14x256 + 256 cells of state_change, (b) byte streams fed to Parser::advance with a recording Perform: "
    "bounded-exhaustive over BYTES40/BYTES20 plus seeded grammar streams, (c) prefix+CAN/SUB+stream replays with the prefix ending "
    "in each of the 14 states / mid-character; non-trivial = stream contains a byte outside printable ASCII; cells and enumerated "
    "strings are distinct by construction, random streams by 64-bit hash",
    [A_REFVT, "malformed UTF-8 follows the contract of the utf8parse decoder the crate documents as out-of-band (one U+FFFD per rejected byte, byte consumed) - DESIGN 8.2",
     "beyond the documented limits the first 32 numbers / 2 intermediates / 16 OSC fields are kept - DESIGN 8.3"],
    simple("c02", require_full=("cancel_arrived_in_state",)),
)

reg(
    "C03",
    "Incremental processing equals one-shot processing for every chunking",
    "exploration",
    "cases = (input, partition) pairs run through StripStr (cuts moved to char boundaries), StripBytes, StripStream::write_all and "
    "WinconBytes::extract_next and compared with the one-shot run of the same entry point, final adapter state compared by == and, "
    "when unequal, by 10 distinguishing suffixes; all 2^(n-1) partitions for enumerated short strings (distinct by construction), "
    "7 chunkers + one targeted cut per parser state for long streams (distinct by hash of input+cuts); non-trivial = the input "
    "contains a byte outside printable ASCII and the partition has at least one cut",
    [A_REFVT + " (used only to classify cut positions for the coverage matrix)"],
    simple("c03", require_full=("cut_position_state",)),
)

A_REFSGR = "trusted base: refmodel::sgr (ECMA-48 / xterm SGR interpreter written for this purpose)"
A_UL = "Effects is set-valued while a terminal holds one underline style: generated sequences never select two different underline styles within one reset epoch and emit 4:0 only when the style is plain/none - DESIGN 8.4"
A_SGR_FORMS = "only complete 38/48/58 groups with values <= 255, <= 32 numbers per sequence, codes 5/6/22-29/59 not generated, no DEL / C0 other than TAB LF CR in visible text - DESIGN 8.5"

reg(
    "C06",
    "The strip stream keeps the Write contract under short writes and errors",
    "fault_enumeration",
    "cases = histories (input, inner-writer script, API, wrapper, caller-side cuts) run against StripStream / AutoStream::never over a "
    "scripted Box<dyn Write>; every caller-level result is checked against a byte-granular reference stripper advanced only by what "
    "the stream reported as consumed, the standard retry protocol is driven to the end and the final parser state probed with a "
    "distinguishing suffix; exhaustive over all scripts up to the depth bound x 48 short inputs (distinct by construction), seeded "
    "random for long inputs (distinct by hash); non-trivial = the script injects at least one short count or error and the input "
    "contains an escape sequence",
    [A_REFVT, "inputs are valid UTF-8 (the statement speaks of 'exactly the stripped form')",
     "a caller may retry the same buffer after any error, because an error means no byte of the buffer was written (std::io::Write contract)"],
    simple("c06"),
    exhaustive={"quick": False, "thorough": False},
)

reg(
    "C07",
    "Styled-run extraction follows standard SGR semantics",
    "exploration",
    "cases = texts fed to WinconBytes::extract_next (one-shot and under 4 chunkers): exhaustive single sequences of <= N attribute groups "
    "over a 40-group representative set from 3 start states (distinct by construction) and seeded SGR-grammar documents with non-SGR "
    "noise (distinct by hash of input+cuts); every visible character's style and the style after the input are compared with the "
    "reference interpreter; non-trivial = contains at least one escape sequence",
    [A_REFVT, A_REFSGR, A_UL, A_SGR_FORMS, "palette colour n and 256-colour index n < 16 are the same colour to a terminal and compared as equal"],
    simple("c07"),
)

reg(
    "C17",
    "ANSI fallback for coloured writes frames the data and reports true progress",
    "fault_enumeration",
    "cases = (fg, bg, data, writer, inner-writer script): all 17x17 colour pairs x 8 data samples x {Vec, File, &mut dyn Write, Box<dyn Write>} "
    "fault-free, all pairs x all scripts up to the depth bound over {accept 0,1,2,3,all, Interrupted, WouldBlock, Other}, plus seeded random "
    "data; the bytes the writer accepted are parsed and interpreted by the reference models; non-trivial = a colour is requested or a "
    "fault is injected; enumerated cases distinct by construction, random by hash",
    [A_REFVT, A_REFSGR, "the data write is identified in the inner-writer log as the first write after the (up to two) colour codes were written completely (codes are written with write_all semantics, the data with one write)"],
    simple("c17"),
    exhaustive={"quick": False, "thorough": False},
)

reg(
    "C18",
    "The legacy-console stream hands over each text run once with 16-colour fg/bg",
    "fault_enumeration",
    "cases = histories (input, chunking, console script, API) against anstream's wincon.rs compiled from the working tree by #[path] "
    "inclusion, over a recording console writer; per call the accepted text bytes with their (fg,bg) are compared with the reference "
    "runs (RefVt+RefSgr, colours capped to 16); all scripts up to the depth bound x 16 short inputs x 4 APIs x (whole | one cut) "
    "exhaustively, SGR-grammar texts with random chunkings/scripts and hostile streams (text + no-escape rule only) seeded; "
    "non-trivial = the input contains an escape sequence",
    [A_REFVT, A_REFSGR, A_UL, A_SGR_FORMS,
     "the three modules wincon.rs imports from its own crate (adapter, stream, fmt) are provided by the harness: adapter re-exports the real WinconBytes, fmt is the real fmt.rs, stream is a local AsLockedWrite/IsTerminal pair"],
    simple("c18"),
    exhaustive={"quick": False, "thorough": False},
)

reg(
    "C05",
    "Rendered styles are pure SGR and round-trip through SGR interpretation",
    "exploration",
    "cases = style values rendered through Display, {:#}, render(), render_reset(), write_to, write_reset_to, Color::render_fg/bg, "
    "Effects::render and Reset, a subset also under a grid of ~240 width/fill/align/precision/sign/zero/alternate format specs; the bytes "
    "are parsed by RefVt and interpreted by RefSgr (each underline code its own flag); exhaustive over all 4096 effect sets, all 16+256 "
    "colours per slot and all 256 values of each RGB component per slot (distinct by construction) plus seeded random full styles "
    "(distinct by hash); non-trivial = the style is not the plain style",
    [A_REFVT, A_REFSGR, "each rendered underline code (4, 21, 4:3, 4:4, 4:5) is read as its own flag of the set-valued Effects type, otherwise no interpretation could round-trip all 4096 sets - DESIGN 8.4"],
    simple("c05"),
)

reg(
    "C10",
    "Lossy colour conversion is total, exact on exact matches and nearest otherwise",
    "exploration",
    "cases = (colour, palette) pairs through all eight conversion functions and Palette::get/index; reference = own xterm-256 formula, "
    "re-typed VGA/Win10 tables, own integer red-mean distance and first-minimum argmin; quick: lattice of step 5 + seeded random colours "
    "(half of them within +-3 of a candidate) x {VGA, Win10, 8 seeded random palettes with duplicates / all-equal / extreme entries}; "
    "thorough: all 2^24 RGB values x 6 palettes; all 16 colours, 256 indices and exact palette entries always; non-trivial = every "
    "(colour, palette) evaluation; lattice / full enumeration distinct by construction, random by hash",
    ["the red-mean metric is taken with the integer weights the crate documents: (1024+rs)*dr^2 + 1024*dg^2 + (1534-rs)*db^2, rs = r1+r2 - DESIGN 8.10"],
    simple("c10"),
    exhaustive={"quick": False, "thorough": True},
)

reg(
    "C11",
    "The git colour parser accepts exactly git's syntax and denotes the right style",
    "exploration",
    "cases = strings passed to anstyle_git::parse and compared with an independent recogniser/denotation (accept <=> accept, same style, "
    "same error variant + word + whole input) and a print/parse round trip; exhaustive 1- and 2-word combinations x case variants x "
    "separators, all '#'+3/6 character words over a 10-character alphabet, all single edits of vocabulary words (distinct by "
    "construction), seeded sentences, printed expressible styles and arbitrary Unicode (distinct by hash); non-trivial = not blank; plus near-duplicate spellings of every vocabulary word parsed after each other on one thread in several orders (counter inputs_after_history)",
    ["a sign in front of a number (+5) and letters whose Unicode lower-casing is ASCII (KELVIN SIGN, dotted capital I) are checked for 'no panic' only - DESIGN 8.6",
     "'#rgb' denotes single-digit components (r,g,b), as the crate's tests pin it", "any number of leading zeros is accepted for 0-255"],
    simple("c11"),
)

reg(
    "C12",
    "The LS_COLORS parser applies SGR codes left to right",
    "exploration",
    "cases = strings passed to anstyle_ls::parse and compared with an independent left-to-right interpreter over its own table of the "
    "recognised codes; exhaustive lists of 1-2 units over 0..=110 + 18 extended-colour forms and 3 codes over a 40-code subset (quick) / "
    "0..=110 (thorough) (distinct by construction), seeded well-formed lists up to 40 codes with leading zeros and malformed lists "
    "(distinct by hash); non-trivial = not empty; plus near-duplicate strings (NUL / zero / blank / sign padding, permuted and "
    "truncated spellings) parsed after each other on one thread in several orders (counter inputs_after_history)",
    ["signed fields (+5) and truncated 38/48/58 forms are outside the statement: checked for 'no panic' only - DESIGN 8.6"],
    simple("c12"),
)

reg(
    "C13",
    "Style, effects and colour values obey their algebra",
    "exploration",
    "cases = all 4096 x 4096 pairs of effect sets (insert, remove, contains, set, |, -, |=, -=, ==, Style | / - / ==), all 4096 sets "
    "(iteration order, Debug, clear, is_plain, convenience methods), all 16 colours and 256 indices, against a u16 bit-set model built "
    "only from contains() observations of the twelve public constants; seeded random style pairs for the setter/getter laws; "
    "non-trivial = every pair; pairs distinct by construction, random styles by hash",
    [],
    simple("c13"),
    exhaustive={"quick": True, "thorough": True},
)

reg(
    "C16",
    "Conversions to other styling crates preserve colours and effects",
    "exploration",
    "cases = (adapter, style): the converted style is rendered by the target library itself (ansi_term paint, crossterm ContentStyle::apply, "
    "owo_colors style, termcolor Ansi + set_color, yansi paint), the escape codes in front of the payload are interpreted by RefSgr and "
    "compared with the source on every attribute the target can express; syntect -> anstyle compared field by field; per adapter all "
    "16+256 colours and a 9^3 RGB lattice per slot x 8 effect sets, all 16x16 palette pairs, all 4096 effect sets x 8 colour settings "
    "(distinct by construction) plus seeded random styles (distinct by hash); non-trivial = the style is not plain",
    [A_REFVT, A_REFSGR,
     "expressibility table fixed from each library's public API (DESIGN 8.8): ansi_term and termcolor have no per-slot brightness (hue compared only; for ansi_term bold is not compared when the foreground is bright, the adapter uses it as an approximation); only crossterm has an underline colour and the four fancy underline styles; termcolor expresses bold, dimmed, italic, underline, strikethrough only"],
    simple("c16"),
    exhaustive={"quick": True, "thorough": True},
)


# ---------------------------------------------------------------------------------------------------------------
# C20: one monitor binary per feature set of anstyle-parse

FEATURE_SETS = [("none", ""), ("core", "core"), ("core+utf8", "core,utf8"), ("default(utf8)", "utf8"), ("defaults+core", "defaults,core")]


_VFEAT_BINS = {}


_VAUTO_BINS = {}


def _c08_feature_lane(res, tier):
    """anstream built without its default features (none / auto only / wincon only): the modes of AutoStream::new must not depend on them."""
    import os
    import shutil
    for name, feats in (("none", ""), ("auto", "auto"), ("wincon", "wincon")):
        if name not in _VAUTO_BINS:
            td = common.cargo_build(["vautofeat"], "release", extra_args=["--no-default-features"] + (["--features", feats] if feats else []))
            dst_dir = os.path.join(td, "featbins")
            os.makedirs(dst_dir, exist_ok=True)
            dst = os.path.join(dst_dir, "vautofeat-" + name)
            shutil.copy2(os.path.join(td, "release", "vautofeat"), dst)
            _VAUTO_BINS[name] = dst
        d = common.run_json([_VAUTO_BINS[name], tier, str(common.SEED)], _timeout(tier))
        lane = "anstream-features=%s" % name
        for v in d.get("violations", []):
            res.violations.append({"sig": v["sig"], "count": v.get("count", 1), "check": "c08", "lane": lane,
                                   "example": {"msg": v["msg"], "case": {"kind": "c08-features", "features": name, "bytes_hex": [v.get("input_hex", "")], "nums": []}}})
        res.add_lane(lane, "held" if not d.get("violation_count") else "violated", {k: d[k] for k in ("features", "streams_per_choice_never_alwaysansi_always_auto")}, evaluations=d["evaluations"], distinct=d["distinct_nontrivial"])


def build_vfeat(name, feats):
    import os
    import shutil
    # the builds share one output path (target/release/vfeat): build and copy each of them once per process
    if name in _VFEAT_BINS:
        return _VFEAT_BINS[name]
    td = common.cargo_build(["vfeat"], "release", extra_args=["--no-default-features", "--features", feats] if feats else ["--no-default-features"])
    src = os.path.join(td, "release", "vfeat")
    dst_dir = os.path.join(td, "featbins")
    os.makedirs(dst_dir, exist_ok=True)
    dst = os.path.join(dst_dir, "vfeat-" + name.replace("+", "_").replace("(", "_").replace(")", ""))
    shutil.copy2(src, dst)
    _VFEAT_BINS[name] = dst
    return dst


def run_c20(res, tier):
    import concurrent.futures as cf
    bins = [(name, build_vfeat(name, feats)) for name, feats in FEATURE_SETS]
    nsh = 1 if tier == "quick" else 8
    jobs = []
    with cf.ThreadPoolExecutor(max_workers=common.THREADS) as ex:
        for name, b in bins:
            for sh in range(nsh):
                jobs.append((name, sh, ex.submit(common.run_json, [b, tier, str(common.SEED), str(sh), str(nsh)], _timeout(tier))))
        results = [(name, sh, f.result()) for name, sh, f in jobs]
    hashes = {}
    for name, sh, d in results:
        lane = {
            "lane": "features=%s shard=%d" % (name, sh),
            "verdict": "held" if d["violation_count"] == 0 else "violated",
            "evaluations": d["evaluations"],
            "distinct_nontrivial": d["distinct_nontrivial"],
            "observed": {k: d[k] for k in ("features", "streams_with_osc_within_cap", "streams_with_truncated_osc", "log_hash_small")},
        }
        res.lanes.append(lane)
        res.evaluations += d["evaluations"]
        if name == FEATURE_SETS[0][0]:
            res.distinct += d["distinct_nontrivial"]  # the builds see the same inputs
        for s in d.get("samples", []):
            if name == FEATURE_SETS[0][0] and len(res.samples) < 8:
                res.samples.append(s)
        for v in d.get("violations", []):
            # the build is part of the signature for rule 1 (a build differs from its own documented behaviour); the
            # in-limit rule (a build differs from the unlimited ones although every payload fits) has build-independent signatures
            sig = ("%s:%s" % (v["sig"], name)) if v["sig"] == "c20:events" else v["sig"]
            res.violations.append({
                "sig": sig, "count": v.get("count", 1), "check": "c20", "lane": lane["lane"],
                "example": {"msg": "[features %s] %s -- input %s" % (name, v["msg"], v.get("input_shown", "")[:120]), "case": {"kind": "c20", "features": name, "bytes_hex": [v["input_hex"]], "nums": []}},
            })
        hashes.setdefault(sh, {})[name] = d["log_hash_small"]
    for sh, h in hashes.items():
        if len(set(h.values())) != 1:
            res.violation("c20:configurations-differ", "event logs of the streams whose OSC payloads fit the fixed buffer differ between feature sets (shard %d): %s" % (sh, h), check="c20")
    res.exhaustive_parts.append("all 101 x 21 oversize OSC shapes (payload 1000..1100 bytes x 0..20 separators), in every feature set")


def replay_c20(doc):
    return replay_case_c20(doc["case"])


def replay_case_c20(case):
    name = case.get("features") or FEATURE_SETS[0][0]
    feats = dict(FEATURE_SETS).get(name, "")
    b = build_vfeat(name, feats)
    d = common.run_json([b, "replay", case["bytes_hex"][0]], 600, ok_codes=(0, 1))
    return None if d.get("replay") == "held" else d


reg(
    "C20",
    "Parser feature configurations differ only by their documented limits",
    "exploration",
    "cases = 7-bit byte streams (seeded grammar streams folded to 7 bits, plus all 101x21 oversize OSC shapes) fed to a monitor binary "
    "built once per feature set {none, core, core+utf8, utf8(default)}; each build compares its callbacks event-for-event with RefVt "
    "(OSC payload cut at 1024 bytes for the fixed-buffer builds), the fixed-buffer builds additionally with the unlimited reference on "
    "every stream whose OSC payloads fit the buffer, and the event-log hash over those streams must be identical across the five builds (none, core, core+utf8, default, defaults+core); non-trivial = stream contains an escape sequence; distinct by 64-bit hash, "
    "counted once (the builds see the same inputs)",
    [A_REFVT, "inputs are 7-bit only: without the utf8 feature bytes >= 0x80 in ground are documented as unsupported"],
    {"run": run_c20, "replay": replay_c20, "replay_case": replay_case_c20},
)


reg(
    "C08",
    "AutoStream modes: never strips, always-ansi forwards unchanged",
    "exploration",
    "cases = (input, operation sequence over write / write_all / write_vectored / write_fmt / flush, boxed-writer fault script) applied in "
    "lock-step to AutoStream::new(w, choice) for all four choices, ::never / ::always / ::always_ansi / ::auto, StripStream::new(w) and the "
    "plain writer, over Vec<u8>, &mut Vec<u8>, Box<dyn Write> (scripted short counts and errors) and File (1 in 50); every call's result, "
    "current_choice(), is_terminal() and the bytes returned by into_inner() are compared; seeded, distinct by hash of input+ops+script; "
    "non-trivial = the input contains an escape sequence",
    [A_REFVT + " (only for the final 'stripped form of what was consumed' comparison)",
     "the Auto choice is compared with Never only when NO_COLOR / CLICOLOR / CLICOLOR_FORCE are unset in the monitor process (the driver clears them); the environment-dependent part of Auto is C09's subject"],
    {"run": None, "replay": None, "replay_case": None},
)


from . import c09 as _c09  # noqa: E402

reg(
    "C09",
    "Colour auto-detection follows the documented precedence for every environment",
    "exploration",
    "cases = (global choice, NO_COLOR, CLICOLOR_FORCE, CLICOLOR, TERM, CI, stream kind) tuples: the full 4x4x4x4x4x3 cross product is "
    "enumerated in-process by a single-threaded child (set_var / remove_var / write_global) for Vec, regular file, pty-backed file, "
    "stdout and stderr, the child being run once on pipes and once on a pty; each observation (AutoStream::choice, auto().current_choice, "
    "new(global()).current_choice, is_terminal, to_adapted_string, the seven anstyle_query probes) is logged as an event and checked "
    "offline against the documented decision table; COLORTERM, the clap flag and seeded unusual values (empty, look-alikes, non-UTF-8, "
    "10 kB) separately; non-trivial = every (environment, stream) decision; distinct = distinct tuples x streams",
    ["'stream is a terminal' is arranged by the driver (pipe vs pty) and cross-checked with std::io::IsTerminal in the child",
     "on this (non-Windows) platform the choice Always is served by the pass-through stream, so current_choice() reports AlwaysAnsi for it"],
    {"run": _c09.run, "replay": _c09.replay, "replay_case": None},
    exhaustive={"quick": True, "thorough": True},
)


from . import c19 as _c19  # noqa: E402

reg(
    "C19",
    "Output of one print call is never interleaved with another thread's",
    "exploration",
    "cases = (a) records <tid:seq:payload:crc> printed by 2..16 threads through print!/println!/eprintln!/write!/write_all/writeln!/"
    "write_fmt/locked writes on anstream::stdout()/stderr(), each assembled from 5 format fragments whose Display impls yield or spin "
    "(delay injected on the caller side), in stripping and pass-through mode, read from pipes and checked offline: every line is exactly "
    "one expected record, each (tid,seq) exactly once, per-thread order kept, no ESC in stripping mode; (b) invocation/response histories "
    "of concurrent write_global()/global() checked as an atomic register (native, under Miri with many scheduler seeds, under "
    "ThreadSanitizer in the thorough tier); non-trivial = every record / history event; distinct = distinct (run, tid, seq) records and "
    "history events (Miri: distinct histories)",
    ["a run with fewer than 100 observed thread switches between consecutive records is reported inconclusive",
     "register check: a read must return the initial value or a value whose write was invoked before the read responded and was not "
     "certainly overwritten before the read was invoked (values are not unique, so this is the necessary condition of linearizability)"],
    {"run": _c19.run, "replay": _c19.replay, "replay_case": None},
)


from . import c14 as _c14  # noqa: E402

reg(
    "C14",
    "SVG rendering is well-formed, text-preserving and style-faithful",
    "exploration",
    "cases = (text, terminal configuration): SGR-grammar documents (generator of C07 plus XML-special strings, ']]>', wide / zero-width "
    "characters, CRLF) x {VGA, Win10} x 5 default colour pairs x background on/off rendered by Term::render_svg; every output is parsed "
    "by expat, the style sheet is read, and per line the text of the foreground spans, what each span's classes denote (read from the "
    "class declarations, not the names), the background layer, the default colours, line positions and canvas height are compared with "
    "the expectation computed by RefVt + RefSgr + the palette model; seeded, distinct by hash of input+configuration; non-trivial = the "
    "input contains an escape sequence",
    [A_REFVT, A_REFSGR, A_UL, A_SGR_FORMS,
     "visible text contains no FF, U+FFFE, U+FFFF, DEL or C0 other than TAB/LF and CR only as part of CRLF inside one run - DESIGN 8.7",
     "a class 'denotes' what its CSS declarations say (fill = foreground, stroke+fill = background, text-decoration-color = underline colour, font-weight bold, ...)",
     "canvas height is only required to reach the last line's position; exact paddings are not part of the statement"],
    {"run": _c14.run, "replay": _c14.replay, "replay_case": None},
)

reg(
    "C15",
    "roff rendering preserves text, colours and font per segment",
    "exploration",
    "cases = styled texts made of segments each introduced by one self-contained SGR sequence (reset + subset of effects + 16-colour "
    "fg/bg codes in random order) over a text alphabet with leading '.', apostrophes, backslashes, hyphens, newlines followed by '.'/\"'\", "
    "literal '\\\\fB' / '\\\\&'; the document (both to_roff() and render()) is read back by an independent roff reader (request lines, text "
    "lines, un-escaping) and compared character by character with the RefVt+RefSgr interpretation: text, colour request names, font; "
    "exhaustive over 17x17 colour pairs x 192 effect subsets for one segment (distinct by construction), seeded multi-segment texts "
    "(distinct by hash); non-trivial = every input",
    [A_REFVT, A_REFSGR, "bold together with faint is not generated (the segmenter keeps one intensity) - DESIGN 8.9",
     "styles accumulated over several sequences and 256-colour / RGB codes are outside the explored domain, as the property's quantifier says"],
    simple("c15"),
)


from . import c04 as _c04  # noqa: E402

reg(
    "C04",
    "No panic, overflow or memory error on any untrusted input",
    "exploration",
    "cases = inputs pushed through every entry point that consumes terminal output or style text (Parser::advance, strip_bytes/str, "
    "StripStr/StripBytes/WinconBytes under random chunkings, StripStream with every write method, AutoStream::never, render_svg x2, "
    "to_roff/render, anstyle_git::parse, anstyle_ls::parse, all anstyle_lossy conversions with random palettes, Style/Color/Effects "
    "rendering): arbitrary bytes, hostile grammar streams, sequences sitting on the documented limits, arbitrary Unicode, SGR text, "
    "near-valid style strings, plus the bounded sets of the other checks; run under the lanes rel / dbg (debug assertions + overflow "
    "checks) / AddressSanitizer / Miri (and valgrind memcheck in the thorough tier), each sanitizer lane guarded by a canary; oracles: "
    "no panic or trap, returned text pieces valid UTF-8 inside the input, no sanitizer report; distinct by 64-bit hash per lane; "
    "non-trivial = input contains a byte outside printable ASCII",
    ["a clean sanitizer run says nothing about inputs or paths the workload did not reach; Miri / valgrind see reduced workloads (their slowdown is 3-4 orders of magnitude)",
     "signatures of the functional checks other than panic / invalid piece are not C04's business and are ignored here (they are reported by their own property)"],
    {"run": _c04.run, "replay": _c04.replay, "replay_case": None},
)



def _run_c08(res, tier):
    vh_lane(res, tier, "c08")
    _c09.adapted_lane(res, tier)
    _c09.lockseq_lane(res)
    _c08_feature_lane(res, tier)


def _replay_c08(doc):
    if (doc.get("sig") or "").startswith("c08:lock-sequence"):
        res = common.Result("C08", "quick", {"rule": "", "level": "exploration"})
        _c09.lockseq_lane(res)
        for v in res.violations:
            return {"sig": v["sig"], "msg": v["example"]["msg"]}
        return None
    if doc.get("sig") == "c08:to_adapted_string":
        res = common.Result("C08", "quick", {"rule": "", "level": "exploration"})
        _c09.adapted_lane(res)
        for v in res.violations:
            return {"sig": v["sig"], "msg": v["example"]["msg"]}
        return None
    return vh_replay("c08")[0](doc)


PROPS["C08"]["run"] = _run_c08
PROPS["C08"]["replay"] = _replay_c08
PROPS["C08"]["replay_case"] = vh_replay("c08")[1]
PROPS["C08"]["rule"] += (
    "; plus every to_adapted_string call made by the C09 child over the 3072-environment cross product x 4 global choices x stream kinds: "
    "the helper must render like AutoStream::new(Vec, detected choice) (stripped for Never, unchanged otherwise); plus, in a child process, "
    "sequences / characters begun through anstream::stdout()/stderr() and completed through the guard returned by lock(), in strip and pass-through mode; "
    "writer kinds also include the deprecated anstream::Buffer (inspected call by call), &mut dyn Write and Box<dyn Write + Send>"
)
