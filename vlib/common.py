"""Shared plumbing for ./check: building the harness from the current /repo working tree, running the
monitor binaries, three-valued verdicts, known findings, evidence and replay files."""
import hashlib
import json
import os
import re
import shutil
import subprocess
import sys
import time

VERIF = os.path.dirname(os.path.dirname(os.path.abspath(__file__)))
REPO = os.environ.get("VERIF_REPO", "/repo").rstrip("/")
SEED = int(os.environ.get("VERIF_SEED", "1") or "1")
THREADS = int(os.environ.get("VERIF_THREADS", "0") or "0") or (os.cpu_count() or 4)

ENV = dict(os.environ)
ENV["CARGO_NET_OFFLINE"] = "true"
ENV.setdefault("CARGO_TERM_COLOR", "never")
# never let colour-related variables of the caller leak into children that test colour detection
for _k in ("NO_COLOR", "CLICOLOR", "CLICOLOR_FORCE", "COLORTERM", "CI"):
    ENV.pop(_k, None)


_HARNESS_DIR = None


class Inconclusive(Exception):
    """Infrastructure problem (build failure, watchdog, tool missing): never a violation."""


def harness_dir():
    """Harness sources.  For the real /repo this is /verif/harness.  When VERIF_REPO points at a scratch copy
    (self-validation against seeded breaks) the sources are mirrored next to it with the path dependencies
    rewritten, so that both can be built at the same time."""
    if REPO == "/repo":
        return os.path.join(VERIF, "harness")
    global _HARNESS_DIR
    if _HARNESS_DIR:
        return _HARNESS_DIR
    dst = os.environ.get("VERIF_HARNESS") or (REPO + ".verif-harness")
    src = os.path.join(VERIF, "harness")
    os.makedirs(dst, exist_ok=True)
    subprocess.run(
        ["rsync", "-a", "--delete", "--exclude", "target*", "--exclude", "out", src + "/", dst + "/"],
        check=True,
    )
    for root, _dirs, files in os.walk(dst):
        if "/target" in root:
            continue
        for f in files:
            if f.endswith((".toml", ".rs")):
                p = os.path.join(root, f)
                s = open(p).read()
                if "/repo/" in s:
                    s2 = s.replace("/repo/", REPO + "/")
                    # keep mtime stable when nothing changed so cargo does not rebuild needlessly
                    tmp = p + ".new"
                    open(tmp, "w").write(s2)
                    os.replace(tmp, p)
    _HARNESS_DIR = dst
    return dst


def out_dir():
    if REPO == "/repo":
        return VERIF
    d = os.environ.get("VERIF_OUT") or (harness_dir() + "/out")
    os.makedirs(d, exist_ok=True)
    return d


_built = set()
_repo_hash = None


def repo_content_hash():
    """Content hash of the repository sources the harness builds against (independent of file timestamps)."""
    global _repo_hash
    if _repo_hash is None:
        h = hashlib.sha1()
        root = os.path.join(REPO, "crates")
        for d, dirs, files in os.walk(root):
            dirs.sort()
            if "/target" in d or "/tests" in d or "/benches" in d or "/examples" in d:
                continue
            for f in sorted(files):
                if f.endswith((".rs", ".toml")):
                    p = os.path.join(d, f)
                    h.update(os.path.relpath(p, root).encode())
                    h.update(open(p, "rb").read())
        _repo_hash = h.hexdigest()
    return _repo_hash


def repo_package_names():
    names = set()
    root = os.path.join(REPO, "crates")
    for c in sorted(os.listdir(root)):
        m = os.path.join(root, c, "Cargo.toml")
        if os.path.exists(m):
            for line in open(m):
                if line.startswith("name"):
                    names.add(line.split('"')[1])
                    break
    return names


def invalidate_if_sources_changed(target_abs):
    """cargo decides freshness by file timestamps; a working tree whose content changed while the timestamps did not
    (a restored or copied tree) would silently be run from stale artifacts.  The harness therefore remembers a content
    hash per build directory and drops the fingerprints of the repository's crates when it differs."""
    import glob
    marker = os.path.join(target_abs, ".verif-repo-hash")
    cur = repo_content_hash()
    old = open(marker).read().strip() if os.path.exists(marker) else None
    if old == cur:
        return False
    if old is not None:
        for name in repo_package_names():
            for fp in glob.glob(os.path.join(target_abs, "**", ".fingerprint", name.replace("_", "-") + "-*"), recursive=True) + \
                    glob.glob(os.path.join(target_abs, "**", ".fingerprint", name.replace("-", "_") + "-*"), recursive=True):
                shutil.rmtree(fp, ignore_errors=True)
    os.makedirs(target_abs, exist_ok=True)
    open(marker, "w").write(cur)
    return old is not None


def cargo_build(packages, profile="release", target_dir="target", toolchain=None, extra_env=None, extra_args=None, timeout=3600):
    """Build harness packages from the current working tree of the repository (path dependencies)."""
    hd = harness_dir()
    key = (tuple(packages), profile, target_dir, toolchain, tuple(sorted((extra_env or {}).items())), tuple(extra_args or []))
    if key in _built:
        return os.path.join(hd, target_dir)
    cmd = ["cargo"]
    if toolchain:
        cmd.append("+" + toolchain)
    cmd += ["build", "--offline"]
    if profile == "release":
        cmd.append("--release")
    for p in packages:
        cmd += ["-p", p]
    cmd += list(extra_args or [])
    env = dict(ENV)
    env["CARGO_TARGET_DIR"] = os.path.join(hd, target_dir)
    env.update(extra_env or {})
    invalidate_if_sources_changed(os.path.join(hd, target_dir))
    t0 = time.time()
    r = subprocess.run(cmd, cwd=hd, env=env, stdout=subprocess.PIPE, stderr=subprocess.STDOUT, text=True, timeout=timeout)
    if r.returncode != 0:
        tail = "\n".join(r.stdout.splitlines()[-40:])
        raise Inconclusive("harness build failed (%s):\n%s" % (" ".join(cmd), tail))
    _built.add(key)
    return os.path.join(hd, target_dir)


def bin_path(name, profile="release", target_dir="target", triple=None):
    hd = harness_dir()
    parts = [hd, target_dir]
    if triple:
        parts.append(triple)
    parts += [profile if profile == "release" else "debug", name]
    return os.path.join(*parts)


def run_json(cmd, timeout, env=None, cwd=None, ok_codes=(0,)):
    """Run a monitor binary that prints one JSON document on stdout."""
    e = dict(ENV)
    e.update(env or {})
    try:
        r = subprocess.run(cmd, cwd=cwd or harness_dir(), env=e, stdout=subprocess.PIPE, stderr=subprocess.PIPE, timeout=timeout)
    except subprocess.TimeoutExpired:
        raise Inconclusive("watchdog: %s did not finish within %ds" % (" ".join(cmd[:4]), timeout))
    out = r.stdout.decode("utf-8", "replace")
    if r.returncode not in ok_codes:
        err = r.stderr.decode("utf-8", "replace")
        raise Inconclusive("monitor exited with %d: %s\n%s" % (r.returncode, " ".join(cmd[:6]), "\n".join(err.splitlines()[-30:])))
    # the JSON document is the last non-empty line
    lines = [l for l in out.splitlines() if l.strip()]
    if not lines:
        raise Inconclusive("monitor produced no output: %s" % " ".join(cmd[:6]))
    try:
        return json.loads(lines[-1])
    except Exception as ex:  # noqa
        raise Inconclusive("monitor output is not JSON (%s): %r" % (ex, lines[-1][:200]))


def load_known():
    p = os.path.join(VERIF, "known_findings.json")
    if not os.path.exists(p):
        return []
    return json.load(open(p))["findings"]


def case_args(case):
    a = ["--kind", case.get("kind", "")]
    for h in case.get("bytes_hex", []):
        a += ["--hex", h]
    for n in case.get("nums", []):
        a += ["--num", str(n)]
    return a


def write_replay(prop, check, viol_example, sig):
    d = os.path.join(out_dir(), "replay")
    os.makedirs(d, exist_ok=True)
    doc = {
        "property": prop,
        "check": check,
        "sig": sig,
        "msg": viol_example.get("msg"),
        "case": viol_example.get("case"),
        "seed": SEED,
        "how_to_replay": "./check %s --replay <this file>" % prop,
    }
    h = hashlib.sha1(json.dumps(doc, sort_keys=True).encode()).hexdigest()[:12]
    p = os.path.join(d, "%s-%s.json" % (prop, h))
    json.dump(doc, open(p, "w"), indent=1, ensure_ascii=True)
    return p


ST_NAMES = ["ground", "escape", "escape_intermediate", "csi_entry", "csi_param", "csi_intermediate", "csi_ignore", "dcs_entry", "dcs_param",
            "dcs_intermediate", "dcs_passthrough", "dcs_ignore", "osc_string", "sos_pm_apc_string", "mid_utf8_char"]
STEP_NAMES = ["accept_0", "accept_1", "accept_2", "accept_3", "accept_all", "interrupted", "would_block", "other_error"]


def label_array(name, v):
    """Coverage vectors are written by the monitors as plain arrays; label them for the reader of the evidence."""
    if len(v) == len(ST_NAMES) and "state" in name:
        return dict(zip(ST_NAMES, v))
    if len(v) == len(STEP_NAMES) and "fault_kind" in name:
        return dict(zip(STEP_NAMES, v))
    if len(v) > 60:
        return {"cells": len(v), "cells_exercised": sum(1 for x in v if x), "total_observations": sum(v)}
    return v


HARNESS_PATH = re.compile(r"(^|/)(harness/|vcore/src|refmodel/src|vwincon/src/c1|vwincon/src/lib|vh/src|vh-mem/src|vh-mt/src|vh-env/src|vfeat/src|vautofeat/src)")
PANIC_AT = re.compile(r"(?:\[panicked at |UNGUARDED-PANIC at )([^\]\s:]+):(\d+)")


def harness_panic(text):
    """If `text` reports a panic whose location lies in the monitor's own sources, return that location (a mistake of the
    machinery: inconclusive, never a violation); None for panics in the repository's crates or of unknown origin."""
    m = PANIC_AT.search(text or "")
    if m and HARNESS_PATH.search(m.group(1)):
        return "%s:%s" % (m.group(1), m.group(2))
    return None


PANIC_LOC = re.compile(r"panicked at ([^\s:]+):(\d+)")
FRAME_AT = re.compile(r"^\s+at ([^\s:]+):(\d+)", re.M)


def child_panic_origin(text):
    """Where a panic that killed a monitor child came from: ("harness", loc) if the panic site - or, for a panic raised
    inside std, the innermost caller outside std in the backtrace (RUST_BACKTRACE=1) - lies in the monitor's own sources,
    ("library", loc) if it lies in the repository's crates, None if it cannot be told."""
    text = text or ""
    m = PANIC_LOC.search(text)
    if not m:
        return None
    locs = [(m.group(1), m.group(2))] + FRAME_AT.findall(text[m.end():])
    for path, line in locs:
        if path.startswith("/rustc/") or path.startswith("library/") or "/.cargo/registry/" in path or "/rustlib/" in path:
            continue
        if HARNESS_PATH.search(path):
            return ("harness", "%s:%s" % (path, line))
        if "crates/" in path:
            return ("library", "%s:%s" % (path, line))
        return None
    return None


class Result:
    """Accumulates lane results for one property run."""

    def __init__(self, prop, tier, spec):
        self.prop = prop
        self.tier = tier
        self.spec = spec
        self.t0 = time.time()
        self.evaluations = 0
        self.distinct = 0
        self.samples = []
        self.coverage = {}
        self.lanes = []
        self.violations = []  # (sig, count, example, check)
        self.known_hits = []
        self.inconclusive = []
        self.exhaustive_parts = []
        self.notes = []

    def add_stats(self, lane, d, check=None):
        """Merge a monitor's JSON summary."""
        self.evaluations += int(d.get("evaluations", 0))
        self.distinct += int(d.get("distinct_nontrivial", 0))
        for s in d.get("samples", []):
            if len(self.samples) < 30:
                self.samples.append(s)
        cov = {}
        for k, v in (d.get("counters") or {}).items():
            cov[k] = v
        for k, v in (d.get("arrays") or {}).items():
            cov[k] = label_array(k, v)
        lane_rec = {
            "lane": lane,
            "verdict": "held",
            "evaluations": d.get("evaluations", 0),
            "distinct_nontrivial": d.get("distinct_nontrivial", 0),
            "observed": cov,
        }
        for n in d.get("notes", []):
            if n not in self.notes:
                self.notes.append(n)
        for n in d.get("exhaustive_parts", []):
            if n not in self.exhaustive_parts:
                self.exhaustive_parts.append(n)
        for v in d.get("violations", []):
            ex = (v.get("examples") or [{}])[0]
            hp = harness_panic(ex.get("msg", ""))
            if hp:
                # the monitor's own code panicked (e.g. an arithmetic overflow in a workload generator under the debug
                # profile): a mistake of the machinery, reported as inconclusive and never as a violation
                self.inconclusive.append({"lane": lane, "why": "the monitor's own code panicked at %s (signature %s): %s" % (hp, v["sig"], ex.get("msg", "")[:300])})
                lane_rec["verdict"] = "inconclusive"
                continue
            lane_rec["verdict"] = "violated"
            self.violations.append({"sig": v["sig"], "count": v["count"], "example": ex, "check": check or d.get("check"), "lane": lane})
        self.lanes.append(lane_rec)
        return lane_rec

    def add_lane(self, lane, verdict, observed, evaluations=0, distinct=0):
        self.evaluations += evaluations
        self.distinct += distinct
        self.lanes.append({"lane": lane, "verdict": verdict, "evaluations": evaluations, "distinct_nontrivial": distinct, "observed": observed})

    def add_inconclusive(self, lane, why):
        self.inconclusive.append({"lane": lane, "why": why})
        self.lanes.append({"lane": lane, "verdict": "inconclusive", "why": why})

    def violation(self, sig, msg, case=None, check=None, lane="offline-checker"):
        for v in self.violations:
            if v["sig"] == sig and v.get("lane") == lane:
                v["count"] += 1
                return
        self.violations.append({"sig": sig, "count": 1, "example": {"msg": msg, "case": case or {"kind": "event-log", "bytes_hex": [], "nums": []}}, "check": check, "lane": lane})


def finish(res, replay_runner=None):
    """Apply known findings, print verdict lines, write evidence, return the exit code."""
    spec = res.spec
    prop = res.prop
    known = [k for k in load_known() if k["property"] == prop]
    open_known = [k for k in known if k.get("status") == "open"]
    printed = []
    # 1. every open finding's reproducer is run: it is only reported while it still fails
    still_failing = {}
    for k in open_known:
        failing = True
        if replay_runner and k.get("reproducer"):
            try:
                failing = replay_runner(k["reproducer"]) is not None
            except Inconclusive as ex:
                res.add_inconclusive("known-finding-reproducer:" + k["id"], str(ex))
                failing = True
        still_failing[k["id"]] = failing
        if failing:
            line = "KNOWN-FINDING: property=%s %s [%s]" % (prop, k["what"], k["id"])
            print(line)
            printed.append(line)
    # 2. explored violations: suppressed only when their signature is listed as open
    open_sigs = {}
    for k in open_known:
        for s in k.get("sigs", []):
            open_sigs[s] = k["id"]
    unlisted = []
    for v in res.violations:
        kid = open_sigs.get(v["sig"])
        if kid:
            res.known_hits.append({"finding": kid, "sig": v["sig"], "count": v["count"]})
        else:
            unlisted.append(v)
    rc = 0
    viol_lines = []
    # one VIOLATION line per signature (the count says how often it was seen across lanes)
    merged = {}
    for v in unlisted:
        if v["sig"] in merged:
            merged[v["sig"]]["count"] += v["count"]
        else:
            merged[v["sig"]] = dict(v)
    unlisted = list(merged.values())
    for v in unlisted:
        path = write_replay(prop, v.get("check"), v["example"], v["sig"])
        line = "VIOLATION property=%s replay=%s" % (prop, path)
        print(line)
        print("  sig=%s count=%s lane=%s: %s" % (v["sig"], v["count"], v.get("lane"), (v["example"].get("msg") or "")[:400]))
        viol_lines.append(line)
        rc = 1
    wall = time.time() - res.t0
    cov = {
        "evaluations": int(res.evaluations),
        "distinct_nontrivial": int(res.distinct),
        "rule": spec["rule"],
        "samples": res.samples[:24],
        "exhaustive": bool(spec.get("exhaustive", {}).get(res.tier, False)),
        "exhaustive_parts": res.exhaustive_parts,
        "lanes": res.lanes,
        "inconclusive_lanes": res.inconclusive,
        "known_findings_reported": [k["id"] for k in open_known if still_failing.get(k["id"])],
        "known_finding_hits": res.known_hits,
        "unlisted_violation_signatures": [{"sig": v["sig"], "count": v["count"], "lane": v.get("lane"), "msg": (v["example"].get("msg") or "")[:300]} for v in unlisted],
        "notes": res.notes,
        "repo": REPO,
    }
    ev = {
        "property_id": prop,
        "tier": res.tier,
        "seed": SEED,
        "level": spec["level"],
        "coverage": cov,
        "assumptions": spec.get("assumptions", []),
        "wall_s": round(wall, 2),
        "violations": len(unlisted),
    }
    if rc == 0 and (res.evaluations < 1 or res.distinct < 2):
        print("ERROR property=%s the monitors observed nothing (evaluations=%d distinct=%d): inconclusive" % (prop, res.evaluations, res.distinct))
        rc = 2
    ed = os.path.join(out_dir(), "evidence")
    os.makedirs(ed, exist_ok=True)
    tmp = os.path.join(ed, prop + ".json.tmp")
    json.dump(ev, open(tmp, "w"), indent=1, ensure_ascii=True)
    os.replace(tmp, os.path.join(ed, prop + ".json"))
    verdict = {0: "HELD", 1: "VIOLATED", 2: "INCONCLUSIVE"}[rc]
    inc = (" inconclusive_lanes=%d" % len(res.inconclusive)) if res.inconclusive else ""
    print("%s property=%s tier=%s seed=%d evaluations=%d distinct_nontrivial=%d lanes=%d%s wall=%.1fs" % (verdict, prop, res.tier, SEED, res.evaluations, res.distinct, len(res.lanes), inc, wall))
    return rc


def vh_replay_runner(check, profile="release"):
    """Returns f(case) -> None (held) | dict (violated)."""

    def run(case):
        cargo_build(["vh"], profile)
        cmd = [bin_path("vh", profile), "replay", check] + case_args(case)
        d = run_json(cmd, timeout=600, ok_codes=(0, 1))
        if d.get("replay") == "held":
            return None
        return d

    return run
