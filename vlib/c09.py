"""C09: colour auto-detection precedence.  Runs the single-threaded child `vh-env` (which enumerates environments
in-process and logs every observed decision) once with stdout/stderr on pipes and once on a pty, then checks the
event logs offline against the documented decision table."""
import json
import os
import shutil
import subprocess
import tempfile

from . import common
from .common import Inconclusive

VARS = ["NO_COLOR", "CLICOLOR_FORCE", "CLICOLOR", "TERM", "CI", "COLORTERM"]


def _val(ev, name):
    v = ev.get(name)
    if v is None:
        return None
    return bytes.fromhex(v)


def expected_choice(g, env, is_term):
    """The documented precedence (DESIGN 3.4)."""
    if g != "Auto":
        return g
    nc, cf, cc, term, ci = env["NO_COLOR"], env["CLICOLOR_FORCE"], env["CLICOLOR"], env["TERM"], env["CI"]
    if nc is not None and nc != b"":
        return "Never"
    if cf is not None and cf != b"":
        return "Always"
    if cc == b"0":
        return "Never"
    hint = (term is not None and term != b"dumb") or (cc is not None and cc != b"0") or (ci is not None)
    return "Always" if (is_term and hint) else "Never"


def expected_probes(env):
    nc, cf, cc, term, ci, ct = (env[k] for k in VARS)
    return {
        "no_color": nc is not None and nc != b"",
        "clicolor_force": cf is not None and cf != b"",
        "clicolor": None if cc is None else (cc != b"0"),
        "term_supports_color": term is not None and term != b"dumb",
        "term_supports_ansi_color": term is not None and term != b"dumb",
        "truecolor": ct in (b"truecolor", b"24bit"),
        "is_ci": ci is not None,
    }


def current_of(choice):
    # non-Windows: Always is served by the ANSI pass-through stream
    return {"Always": "AlwaysAnsi", "AlwaysAnsi": "AlwaysAnsi", "Never": "Never"}[choice]


PROBE_TEXT = "\x1b[1mX\x1b[0m"


def check_log(path, run_name, stdout_is_tty, res, counters, seen, full, stderr_is_tty=None):
    if stderr_is_tty is None:
        stderr_is_tty = stdout_is_tty
    n_events = 0
    for line in open(path):
        line = line.strip()
        if not line:
            continue
        ev = json.loads(line)
        if ev["ev"] == "clap":
            n_events += 1
            counters["clap_events"] = counters.get("clap_events", 0) + 1
            argv = ev["argv"]
            want = None
            if argv == ["prog"]:
                want = "Auto"
            elif len(argv) == 3 and argv[1] == "--color" and argv[2] in ("auto", "always", "never"):
                want = argv[2].capitalize()
            elif len(argv) == 2 and argv[1] in ("--color=always", "--color=never"):
                want = argv[1].split("=")[1].capitalize()
            if want is None:
                if ev["parsed"]:
                    res.violation("c09:clap:accepts-invalid", "[%s] clap accepted %r as a colour flag (as_choice=%s)" % (run_name, argv, ev.get("as_choice")), check="c09")
            else:
                if not ev["parsed"]:
                    res.violation("c09:clap:rejects-valid", "[%s] clap rejected %r" % (run_name, argv), check="c09")
                elif ev["as_choice"] != want or ev["global_after_write_global"] != want:
                    res.violation("c09:clap:mapping", "[%s] %r maps to %s and write_global() stores %s, expected %s" % (run_name, argv, ev["as_choice"], ev["global_after_write_global"], want), check="c09")
            continue
        n_events += 1
        env = {k: _val(ev, k) for k in VARS}
        g = ev["global"]
        key = (run_name, g) + tuple(env[k] for k in VARS)
        if full and not ev.get("swapped") and "reattach" not in ev:
            seen[key] = seen.get(key, 0) + 1
        counters["environments_observed"] = counters.get("environments_observed", 0) + 1
        if ev["global_read_back"] != g:
            res.violation("c09:global-read-back", "[%s] write_global(%s) reads back as %s" % (run_name, g, ev["global_read_back"]), check="c09")
        wp = expected_probes(env)
        for k, w in wp.items():
            if ev["probes"][k] != w:
                res.violation("c09:probe:%s" % k, "[%s] %s() = %r with %s, expected %r" % (run_name, k, ev["probes"][k], {v: env[v] for v in VARS if env[v] is not None}, w), check="c09",
                              case={"kind": "c09-env", "env": {k2: (ev.get(k2)) for k2 in VARS}, "global": g, "bytes_hex": [], "nums": []})
        for d in ev["decisions"]:
            kind = d["stream"]
            counters["decisions_checked"] = counters.get("decisions_checked", 0) + 1
            if kind == "stdout-lock-disagrees":
                res.violation("c09:stdout-lock", "[%s] AutoStream::choice(&stdout.lock()) = %s differs from choice(&stdout)" % (run_name, d["choice"]), check="c09")
                continue
            # which streams are terminals is arranged by the driver; the child's own std observation must agree
            # (in events marked "swapped" the child has exchanged what its descriptors 1 and 2 are attached to)
            out_tty, err_tty = (stderr_is_tty, stdout_is_tty) if ev.get("swapped") else (stdout_is_tty, stderr_is_tty)
            if ev.get("swapped"):
                counters["decisions_after_reattaching_the_standard_streams"] = counters.get("decisions_after_reattaching_the_standard_streams", 0) + 1
            arranged = {"vec": False, "file": False, "ttyfile": True, "mut_ttyfile": True, "box_dyn": False, "stdout": out_tty, "stdout_lock": out_tty,
                        "stderr": err_tty, "stderr_lock": err_tty}[kind]
            if d["is_terminal_std"] != arranged:
                raise Inconclusive("[%s] stream %s: driver arranged terminal=%s but the child observes %s" % (run_name, kind, arranged, d["is_terminal_std"]))
            ck = "decisions_terminal" if arranged else "decisions_non_terminal"
            counters[ck] = counters.get(ck, 0) + 1
            if d["stream_reports_terminal"] != arranged:
                res.violation("c09:is_terminal:%s" % kind, "[%s] AutoStream::is_terminal() = %s for a %s that %s a terminal" % (run_name, d["stream_reports_terminal"], kind, "is" if arranged else "is not"), check="c09")
            want = expected_choice(g, env, arranged)
            ctx = "[%s] global=%s %s stream=%s terminal=%s" % (run_name, g, {v: env[v] for v in VARS if env[v] is not None}, kind, arranged)
            case = {"kind": "c09-env", "env": {k2: ev.get(k2) for k2 in VARS}, "global": g, "stream": kind, "bytes_hex": [], "nums": []}
            # an explicit global choice is reported as it is; a decision derived from the environment is "colour
            # enabled" or "colour disabled" - the statement does not say which of the two enabling variants is reported
            agrees = d["choice"] == want or (g == "Auto" and want == "Always" and d["choice"] == "AlwaysAnsi")
            if not agrees:
                res.violation("c09:choice", "%s: AutoStream::choice = %s, the documented precedence gives %s" % (ctx, d["choice"], want), check="c09", case=case)
                continue
            # (Always and AlwaysAnsi are the same mode on this platform; either name may be reported for it)
            def same_mode(got, exp):
                return got == exp or (got in ("Always", "AlwaysAnsi") and exp in ("Always", "AlwaysAnsi"))
            if not same_mode(d["auto_current_choice"], current_of(want)):
                res.violation("c09:auto-current-choice", "%s: auto(..).current_choice() = %s, expected %s" % (ctx, d["auto_current_choice"], current_of(want)), check="c09", case=case)
            if not same_mode(d["new_global_current_choice"], current_of(want)):
                res.violation("c09:new-global-current-choice", "%s: new(stream, global()).current_choice() = %s, expected %s" % (ctx, d["new_global_current_choice"], current_of(want)), check="c09", case=case)
            # (Auto = the child did not make this observation for this stream kind)
            if d.get("new_auto_current_choice", "Auto") != "Auto" and not same_mode(d["new_auto_current_choice"], current_of(want)):
                res.violation("c09:new-auto-current-choice", "%s: new(stream, ColorChoice::Auto).current_choice() = %s, expected %s" % (ctx, d["new_auto_current_choice"], current_of(want)), check="c09", case=case)
            want_text = "X" if want == "Never" else PROBE_TEXT
            if d["adapted"] != want_text:
                res.violation("c09:to_adapted_string", "%s: to_adapted_string gives %r, expected %r" % (ctx, d["adapted"], want_text), check="c09", case=case)
    return n_events


def run(res, tier):
    import pty
    td = common.cargo_build(["vh-env"], "release")
    exe = os.path.join(td, "release", "vh-env")
    work = tempfile.mkdtemp(prefix="vh-c09-", dir=os.path.join(common.harness_dir()))
    counters = {}
    seen = {}
    try:
        try:
            master, slave = pty.openpty()
            master2, slave2 = pty.openpty()
            tty_path = os.ttyname(slave2)
        except OSError as ex:
            master = slave = master2 = slave2 = None
            tty_path = "-"
            res.add_inconclusive("terminal-half", "no pty available: %s" % ex)
        env = dict(common.ENV)
        for k in VARS:
            env.pop(k, None)
        env["RUST_BACKTRACE"] = "1"
        modes = [("full", [])]
        if tier == "thorough":
            modes.append(("extra", [str(common.SEED), "20000"]))
        else:
            modes.append(("extra", [str(common.SEED), "2000"]))
        total = 0
        for mode, extra in modes:
            # (stdout is a terminal, stderr is a terminal): both pipes, both on a pty, and the two mixed layouts
            for run_name, out_tty, err_tty in (("pipes", False, False), ("pty", True, True), ("out-pipe/err-pty", False, True), ("out-pty/err-pipe", True, False)):
                if (out_tty or err_tty) and slave is None:
                    continue
                if mode == "extra" and out_tty != err_tty:
                    continue
                log = os.path.join(work, "log-%s-%s.jsonl" % (mode, run_name.replace("/", "_")))
                cmd = [exe, log, os.path.join(work, "regular.txt"), tty_path, mode] + (extra if extra else [str(common.SEED)])
                p = subprocess.run(cmd, env=env, stdin=subprocess.DEVNULL, stdout=slave if out_tty else subprocess.DEVNULL, stderr=slave if err_tty else subprocess.PIPE, timeout=900)
                if p.returncode != 0:
                    err = (p.stderr or b"").decode("utf-8", "replace")
                    origin = common.child_panic_origin(err)
                    if origin and origin[0] == "library":
                        # the decision function itself panicked: no decision was made for that configuration
                        i = err.find("panicked at")
                        res.violation("c09:panic-in-library", "[%s/%s] the child panicked in the repository's code (%s): %s" % (mode, run_name, origin[1], err[i:i + 300].replace("\n", " ")),
                                      case={"kind": "c09-child", "bytes_hex": [], "nums": [], "mode": mode, "run": run_name})
                        continue
                    raise Inconclusive("vh-env exited with %d (%s/%s): %s" % (p.returncode, mode, run_name, err[-500:]))
                n = check_log(log, run_name, out_tty, res, counters, seen, mode == "full", err_tty)
                total += n
                res.lanes.append({"lane": "child:%s:%s" % (mode, run_name), "verdict": "held", "evaluations": n, "observed": {"events": n, "stdout_is_tty": out_tty, "stderr_is_tty": err_tty}})
        # completeness of the cross product (every tuple exactly once per run)
        v4 = [None, b"", b"0", b"1"]
        term = [None, b"", b"dumb", b"xterm-256color"]
        ci = [None, b"", b"true"]
        missing = dup = 0
        runs = ["pipes"] + (["pty", "out-pipe/err-pty", "out-pty/err-pipe"] if slave is not None else [])
        for rn in runs:
            for g in ("Auto", "AlwaysAnsi", "Always", "Never"):
                for a in v4:
                    for b in v4:
                        for c in v4:
                            for t in term:
                                for i in ci:
                                    k = (rn, g, a, b, c, t, i, None)
                                    n = seen.get(k, 0)
                                    if n == 0:
                                        missing += 1
                                    elif n > 1 and not (a is None and b is None and c is None and t is None and i is None and g == "Auto"):
                                        dup += 1
        if missing:
            raise Inconclusive("%d tuples of the environment cross product are missing from the child's log" % missing)
        counters["cross_product_tuples_per_run"] = 4 * 4 * 4 * 4 * 4 * 3
        counters["cross_product_tuples_missing"] = missing
        counters["cross_product_tuples_duplicated"] = dup
        res.evaluations += counters.get("decisions_checked", 0) + counters.get("clap_events", 0)
        res.distinct += len(seen) * (9 if slave is not None else 7)
        res.lanes.append({"lane": "offline-decision-table-checker", "verdict": "held" if not res.violations else "violated", "evaluations": counters.get("decisions_checked", 0), "observed": counters})
        res.samples.append({"global": "Auto", "NO_COLOR": None, "CLICOLOR_FORCE": None, "CLICOLOR": "1", "TERM": "dumb", "CI": None, "stream": "stdout on a pty", "expected_choice": expected_choice("Auto", {"NO_COLOR": None, "CLICOLOR_FORCE": None, "CLICOLOR": b"1", "TERM": b"dumb", "CI": None, "COLORTERM": None}, True)})
        res.samples.append({"global": "Auto", "NO_COLOR": "", "CLICOLOR_FORCE": "0", "CLICOLOR": "0", "TERM": "xterm-256color", "CI": "true", "stream": "vec", "expected_choice": expected_choice("Auto", {"NO_COLOR": b"", "CLICOLOR_FORCE": b"0", "CLICOLOR": b"0", "TERM": b"xterm-256color", "CI": b"true", "COLORTERM": None}, False)})
        res.exhaustive_parts.append("global choice {Auto, AlwaysAnsi, Always, Never} x NO_COLOR x CLICOLOR_FORCE x CLICOLOR {unset,'','0','1'} x TERM {unset,'','dumb','xterm-256color'} x CI {unset,'','true'} = 3072 environments x {Vec, Box<dyn Write>, regular file, pty file, &mut pty file, stdout, stdout lock, stderr, stderr lock}, the child run with stdout/stderr on pipes, both on a pty, and in the two mixed layouts; COLORTERM x 8 values; 10 clap command lines")
        for fd in (master, slave, master2, slave2):
            if fd is not None:
                try:
                    os.close(fd)
                except OSError:
                    pass
    finally:
        shutil.rmtree(work, ignore_errors=True)


def replay(doc):
    """Replays are decided by re-running the whole (cheap, exhaustive) enumeration and looking for the same signature."""
    res = common.Result("C09", "quick", {"rule": "", "level": "exploration"})
    run(res, "quick")
    for v in res.violations:
        if v["sig"] == doc.get("sig"):
            return {"sig": v["sig"], "msg": v["example"]["msg"]}
    return None


def adapted_lane(res, tier="quick"):
    """C08 uses the same child for `to_adapted_string`: whatever choice the detection makes for a stream, the helper must
    render like AutoStream::new(Vec, that choice): stripped for Never, unchanged otherwise (metamorphic: the observed
    choice is the input of the oracle, not the decision table)."""
    td = common.cargo_build(["vh-env"], "release")
    exe = os.path.join(td, "release", "vh-env")
    work = tempfile.mkdtemp(prefix="vh-c08-", dir=os.path.join(common.harness_dir()))
    try:
        env = dict(common.ENV)
        for k in VARS:
            env.pop(k, None)
        log = os.path.join(work, "log.jsonl")
        p = subprocess.run([exe, log, os.path.join(work, "regular.txt"), "-", "full", str(common.SEED)], env=env, stdin=subprocess.DEVNULL, stdout=subprocess.PIPE, stderr=subprocess.PIPE, timeout=900)
        if p.returncode != 0:
            raise Inconclusive("vh-env exited with %d" % p.returncode)
        n = 0
        by_choice = {}
        for line in open(log):
            ev = json.loads(line)
            if ev.get("ev") != "env":
                continue
            for d in ev["decisions"]:
                if "adapted" not in d or d["stream"] == "stdout-lock-disagrees":
                    continue
                n += 1
                by_choice[d["choice"]] = by_choice.get(d["choice"], 0) + 1
                want = "X" if d["choice"] == "Never" else PROBE_TEXT
                if d["adapted"] != want:
                    res.violation("c08:to_adapted_string", "global=%s stream=%s: detection chose %s but to_adapted_string rendered %r (expected %r)" % (ev["global"], d["stream"], d["choice"], d["adapted"], want), check="c08", lane="to_adapted_string")
        # generated texts (with escapes, with DEL / C0 controls only, long): the child compares the helper with
        # AutoStream::new(Vec, detected choice) itself and logs disagreements
        log2 = os.path.join(work, "adapted.jsonl")
        ntexts = 2000 if tier == "quick" else 50000
        p = subprocess.run([exe, log2, os.path.join(work, "regular.txt"), "-", "adapted", str(common.SEED), str(ntexts)], env=env, stdin=subprocess.DEVNULL, stdout=subprocess.PIPE, stderr=subprocess.PIPE, timeout=1800)
        if p.returncode != 0:
            raise Inconclusive("vh-env adapted exited with %d: %s" % (p.returncode, p.stderr[-300:]))
        summary = None
        for line in open(log2):
            ev = json.loads(line)
            if ev["ev"] == "adapted-mismatch":
                res.violation("c08:to_adapted_string", "global=%s: detection chose %s but to_adapted_string rendered %s, AutoStream::new(Vec, %s) renders %s" % (ev["global"], ev["decided"], ev["got"], ev["decided"], ev["want"]), check="c08", lane="to_adapted_string",
                              case={"kind": "c08-adapted", "bytes_hex": [ev["text_hex"]], "nums": []})
            elif ev["ev"] == "adapted-summary":
                summary = ev
        if summary is None:
            raise Inconclusive("vh-env adapted wrote no summary")
        n += summary["evaluations"]
        res.add_lane("to_adapted_string", "held", {"calls_checked": n, "by_detected_choice": by_choice, "generated_texts_compared_with_the_stream": summary["evaluations"],
                                                   "generated_by_decided_choice": summary["by_decided_choice_auto_alwaysansi_always_never"]}, evaluations=n, distinct=len(by_choice) + summary["evaluations"])
    finally:
        shutil.rmtree(work, ignore_errors=True)


# (first part, rest, stripped form) per stream; mirrors vh-mt's lockseq mode
LOCKSEQ = {
    "stdout": [(b"name\x1b[3", b"8;5;208m value\x1b[0m\n", b"name value\n"), (b"t\x1b]0;ti", b"tle\x07x\n", b"tx\n"), (b"a\x1b[1mb", b"\x1b[0mc\n", b"abc\n")],
    "stderr": [(b"na\xc3", b"\xafve\n", b"na\xc3\xafve\n"), (b"warn\x1b[", b"33m: x\x1b[m\n", b"warn: x\n")],
}


def lockseq_lane(res):
    """AutoStream<Stdout/Stderr>::lock() must keep the mode and the parser state: a sequence / character begun through the
    unlocked stream is completed through the lock guard (child process, output captured from pipes)."""
    td = common.cargo_build(["vh-mt"], "release")
    exe = os.path.join(td, "release", "vh-mt")
    n = 0
    for mode, var in (("strip", "NO_COLOR"), ("pass-through", "CLICOLOR_FORCE")):
        env = dict(common.ENV)
        for k in VARS:
            env.pop(k, None)
        env[var] = "1"
        p = subprocess.run([exe, "lockseq"], env=env, stdin=subprocess.DEVNULL, stdout=subprocess.PIPE, stderr=subprocess.PIPE, timeout=120)
        if p.returncode != 0:
            raise Inconclusive("vh-mt lockseq exited with %d: %s" % (p.returncode, p.stderr[-300:]))
        for stream, got in (("stdout", p.stdout), ("stderr", p.stderr)):
            want = b"".join((c[2] if mode == "strip" else c[0] + c[1]) for c in LOCKSEQ[stream])
            n += len(LOCKSEQ[stream])
            if got != want:
                res.violation("c08:lock-sequence:%s" % mode, "[%s %s] a sequence begun before lock() and finished through the lock guard came out as %r, expected %r" % (mode, stream, got, want), check="c08", lane="lock-sequence")
    res.add_lane("lock-sequence", "held", {"sequences_split_across_lock": n, "modes": ["strip", "pass-through"]}, evaluations=n, distinct=n)
