"""C14: SVG rendering is well-formed, text-preserving and style-faithful.

The Rust half (vh c14) renders generated documents and writes, per document, the SVG and the expectation computed by
the reference VT/SGR/palette models.  This module is the offline checker: every SVG is parsed with expat (an
independent, strict XML 1.0 parser), the style sheet is read, and lines / spans / classes are compared."""
import concurrent.futures as cf
import json
import os
import re
import shutil
import subprocess
import tempfile
import xml.etree.ElementTree as ET

from . import common
from .common import Inconclusive

SVG = "{http://www.w3.org/2000/svg}"
RULE = re.compile(r"\.([A-Za-z0-9_-]+)\s*\{([^}]*)\}")


def parse_sheet(text):
    rules = {}
    for name, body in RULE.findall(text):
        decl = {}
        for d in body.split(";"):
            d = d.strip()
            if not d:
                continue
            if ":" not in d:
                continue
            k, v = d.split(":", 1)
            decl[k.strip()] = v.strip()
        rules[name] = decl
    return rules


def meaning(name, decl):
    """What a class denotes, read from its declarations (not from its name)."""
    d = dict(decl)
    if set(d) == {"fill"}:
        return "fg:" + d["fill"].upper()
    if set(d) == {"stroke", "fill", "user-select"} and d["stroke"] == d["fill"]:
        return "bg:" + d["fill"].upper()
    if set(d) == {"text-decoration-line", "text-decoration-color"} and d["text-decoration-line"] == "underline":
        return "ul:" + d["text-decoration-color"].upper()
    if d == {"text-decoration-line": "underline"}:
        return "underline"
    if d.get("text-decoration-line") == "underline" and set(d) == {"text-decoration-line", "text-decoration-style"}:
        return {"double": "double-underline", "wavy": "curly-underline", "dotted": "dotted-underline", "dashed": "dashed-underline"}.get(d["text-decoration-style"], "?" + name)
    if d == {"text-decoration-line": "line-through"}:
        return "strikethrough"
    if d == {"font-weight": "bold"}:
        return "bold"
    if d == {"font-style": "italic"}:
        return "italic"
    if d == {"opacity": "0.7"}:
        return "dimmed"
    if d == {"opacity": "0"}:
        return "hidden"
    return "?" + name


def px(v):
    m = re.fullmatch(r"(\d+)px", v or "")
    return int(m.group(1)) if m else None


def check_doc(doc):
    """Returns a list of (sig, msg)."""
    out = []
    svg = doc["svg"]
    try:
        root = ET.fromstring(svg.encode("utf-8"))
    except ET.ParseError as ex:
        return [("c14:not-well-formed", "expat rejects the SVG: %s" % ex)]
    if root.tag != SVG + "svg":
        return [("c14:root", "root element is %s" % root.tag)]
    style = root.find(SVG + "style")
    if style is None:
        return [("c14:no-style-sheet", "no <style> element")]
    rules = parse_sheet(style.text or "")
    cfg = doc["cfg"]
    if rules.get("fg", {}).get("fill", "").upper() != cfg["default_fg"]:
        out.append(("c14:default-fg", ".fg is %r, the configured default foreground resolves to %s" % (rules.get("fg"), cfg["default_fg"])))
    if rules.get("bg", {}).get("background", "").upper() != cfg["default_bg"]:
        out.append(("c14:default-bg", ".bg is %r, the configured default background resolves to %s" % (rules.get("bg"), cfg["default_bg"])))
    rect = root.find(SVG + "rect")
    if (rect is not None) != cfg["background"]:
        out.append(("c14:background-rect", "background rectangle present=%s, configured=%s" % (rect is not None, cfg["background"])))
    text = root.find(SVG + "text")
    if text is None:
        return out + [("c14:no-text", "no <text> element")]
    want_lines = doc["lines"]
    # group the line-level tspans by y
    groups = []
    for ts in text.findall(SVG + "tspan"):
        y = px(ts.get("y"))
        if y is None or px(ts.get("x")) is None:
            out.append(("c14:line-position", "line tspan without px position: %r" % ts.attrib))
            continue
        if groups and groups[-1][0] == y:
            groups[-1][1].append(ts)
        else:
            groups.append((y, [ts]))
    if len(groups) != len(want_lines):
        out.append(("c14:line-count", "the SVG has %d lines, the visible text has %d" % (len(groups), len(want_lines))))
        return out
    ys = [g[0] for g in groups]
    if any(b <= a for a, b in zip(ys, ys[1:])):
        out.append(("c14:line-position", "line positions do not increase: %s" % ys[:8]))
    steps = set(b - a for a, b in zip(ys, ys[1:]))
    if len(steps) > 1:
        out.append(("c14:line-position", "lines are not evenly spaced: steps %s" % sorted(steps)))
    height = px(root.get("height"))
    if height is None:
        out.append(("c14:height", "no pixel height on the canvas"))
    elif ys and height < ys[-1]:
        out.append(("c14:height", "canvas height %d does not reach the last line at y=%d (%d lines)" % (height, ys[-1], len(ys))))

    def span_items(line_ts):
        items = []
        for sp in line_ts.findall(SVG + "tspan"):
            classes = (sp.get("class") or "").split()
            ms = []
            for c in classes:
                if c not in rules:
                    out.append(("c14:undefined-class", "class %r is used on a span but not defined in the style sheet" % c))
                    ms.append("?" + c)
                else:
                    ms.append(meaning(c, rules[c]))
            items.append((sp.text or "", sorted(ms)))
        return items

    for li, ((y, tss), want) in enumerate(zip(groups, want_lines)):
        want_chars = []
        for t, ms in want:
            for ch in t:
                want_chars.append((ch, sorted(ms)))
        has_bg = any(any(m.startswith("bg:") for m in ms) for _, ms in want)
        # a background layer is required when some text on the line has a background; an extra layer on a line
        # without background text is harmless as long as it shows no colour (checked below)
        if len(tss) not in (1, 2) or (has_bg and len(tss) != 2):
            out.append(("c14:background-layer", "line %d: %d layers, background expected=%s" % (li, len(tss), has_bg)))
            continue
        fg_ts = tss[-1]
        got_chars = []
        for t, ms in span_items(fg_ts):
            for ch in t:
                got_chars.append((ch, ms))
        gt = "".join(c for c, _ in got_chars)
        wt = "".join(c for c, _ in want_chars)
        # a carriage return that is not the one in front of the line feed stays in the line; the renderer writes it as a
        # raw CR, which every XML parser hands back as LF (XML 1.0 line-end normalisation), so the two are not told apart
        if gt.replace("\r", "\n") != wt.replace("\r", "\n"):
            out.append(("c14:text", "line %d: text recovered from the spans is %r, the visible text is %r" % (li, gt[:80], wt[:80])))
            continue
        for ci, ((c, gm), (_, wm)) in enumerate(zip(got_chars, want_chars)):
            wfg = sorted(m for m in wm if not m.startswith("bg:"))
            if gm != wfg:
                out.append(("c14:classes", "line %d char %d %r: classes denote %s, the style in effect is %s" % (li, ci, c, gm, wfg)))
                break
        if len(tss) == 2:
            bad = [m for _, ms in span_items(tss[0]) for m in ms if not m.startswith("bg:")]
            if bad:
                out.append(("c14:background-classes", "line %d: background span carries %s" % (li, bad)))
            seq = _bg_sequence(span_items(tss[0]), False)
            wseq = _bg_sequence(want, True)
            if not has_bg:
                seq = [k for k in seq if k is not None]
                wseq = []
            if seq != wseq:
                out.append(("c14:background-colours", "line %d: background spans show %s, expected %s" % (li, seq, wseq)))
    return out


ZERO_WIDTH = {"\u200b", "\u0301", "\ufeff"}


def _bg_sequence(items, expected):
    """Background colours along a line, neighbouring equal entries merged.  A run that has no display width (only
    zero-width characters) produces an empty background span and is skipped on both sides."""
    seq = []
    for t, ms in items:
        if expected:
            if all(ch in ZERO_WIDTH for ch in t):
                continue
        elif t == "":
            continue
        b = [m for m in ms if m.startswith("bg:")]
        key = b[0] if b else None
        if not seq or seq[-1] != key:
            seq.append(key)
    return seq


def check_file(path):
    n = 0
    chars = 0
    spans = 0
    viols = {}
    sample = None
    for line in open(path, encoding="utf-8"):
        if not line.strip():
            continue
        doc = json.loads(line)
        n += 1
        chars += sum(len(t) for l in doc["lines"] for t, _ in l)
        spans += sum(len(l) for l in doc["lines"])
        if sample is None and len(doc["lines"]) > 1:
            sample = {"input": doc["input_shown"], "cfg": doc["cfg"], "expected_first_line": doc["lines"][0][:4], "svg_bytes": len(doc["svg"])}
        for sig, msg in check_doc(doc):
            v = viols.setdefault(sig, {"count": 0, "msg": msg, "doc": {"id": doc["id"], "input_hex": doc["input_hex"], "input_shown": doc["input_shown"]}})
            v["count"] += 1
    return n, chars, spans, viols, sample


def run(res, tier):
    common.cargo_build(["vh"], "release")
    exe = common.bin_path("vh", "release")
    work = tempfile.mkdtemp(prefix="vh-c14-", dir=common.harness_dir())
    try:
        nproc = common.THREADS
        procs = []
        for i in range(nproc):
            env = dict(common.ENV)
            env["VH_C14_OUT"] = os.path.join(work, "part-%d.jsonl" % i)
            procs.append(subprocess.Popen([exe, "run", "c14", "--tier", tier, "--seed", str(common.SEED), "--threads", "1", "--pshard", "%d/%d" % (i, nproc)], env=env, stdout=subprocess.PIPE, stderr=subprocess.PIPE))
        gen_eval = gen_distinct = 0
        for p in procs:
            try:
                o, e = p.communicate(timeout=3600)
            except subprocess.TimeoutExpired:
                p.kill()
                raise Inconclusive("watchdog: SVG generation did not finish")
            if p.returncode != 0:
                raise Inconclusive("vh c14 exited with %d: %s" % (p.returncode, e.decode("utf-8", "replace")[-400:]))
            d = json.loads(o.decode().strip().splitlines()[-1])
            gen_eval += d["evaluations"]
            gen_distinct += d["distinct_nontrivial"]
            for v in d.get("violations", []):
                res.violations.append({"sig": v["sig"], "count": v["count"], "example": v["examples"][0], "check": "c14", "lane": "render"})
        files = [os.path.join(work, "part-%d.jsonl" % i) for i in range(nproc)]
        total = chars = spans = 0
        with cf.ProcessPoolExecutor(max_workers=nproc) as ex:
            for n, c, s, viols, sample in ex.map(check_file, files):
                total += n
                chars += c
                spans += s
                if sample and len(res.samples) < 4:
                    res.samples.append(sample)
                for sig, v in viols.items():
                    res.violations.append({"sig": sig, "count": v["count"], "check": "c14", "lane": "offline-xml-checker",
                                           "example": {"msg": "%s -- input %s" % (v["msg"], v["doc"]["input_shown"]), "case": {"kind": "c14", "bytes_hex": [v["doc"]["input_hex"]], "nums": [v["doc"]["id"]]}}})
        if total != gen_eval:
            raise Inconclusive("the offline checker saw %d documents, the generator wrote %d" % (total, gen_eval))
        res.add_lane("render+expat", "held" if not res.violations else "violated", {"documents_parsed_by_expat": total, "visible_characters_compared": chars, "expected_runs": spans, "configurations": "2 palettes x 5 default colour pairs x background on/off"}, evaluations=total, distinct=gen_distinct)
    finally:
        shutil.rmtree(work, ignore_errors=True)


def replay(doc):
    case = doc["case"]
    runner = common.vh_replay_runner("c14")
    common.cargo_build(["vh"], "release")
    cmd = [common.bin_path("vh", "release"), "replay", "c14"] + common.case_args(case)
    d = common.run_json(cmd, timeout=600, ok_codes=(0, 1))
    if d.get("replay") != "held":
        return d
    sd = json.loads(d["detail"])
    v = check_doc(sd)
    if v:
        return {"sig": v[0][0], "msg": v[0][1]}
    return None
