"""Texts for MANIFEST.json (kept apart from the machinery)."""

HOOKS = {
    "guard": "rust_cli_anstyle_verif",
    "enable": "no hook is needed: every observation point is a public API (clone-and-probe for adapter state, caller-side Display impls for delay injection, #[path] inclusion for the Windows-only stream); the guard name is reserved and unused",
    "baseline_off_cmd": "cd /repo && cargo test --workspace --no-fail-fast --offline",
    "source_commits": [],
    "add_only": True,
}

ENGINES = [
    {"name": "vh", "path": "/verif/harness", "serves_properties": [], "kind_free_text": "Rust monitor binaries (reference-model oracles + workload generators) built against /repo's crates by path dependency; python driver ./check"},
]

NOTES = (
    "Technique family: runtime monitoring and sanitizers.  Every check runs the real code from /repo's working tree next to an "
    "independent reference model and reports what was observed; nothing is proved.  exit 0 = held on what was explored, "
    "exit 1 = VIOLATION line + replay file, exit 2 = inconclusive (build failure / watchdog), never reported as a violation.  "
    "VERIF_SEED seeds every random choice; VERIF_REPO=<dir> points the harness at a scratch copy (self-validation only)."
)

NOT_CLAIMED = {}

RM = "runtime monitoring: differential reference-model oracle over bounded-exhaustive + seeded generated workloads"

CLAIMS = {
    "C01": {
        "text": "Held on every explored input: all strings up to the enumeration bound over class-representative alphabets and seeded hostile streams, all six strip entry points compared byte-for-byte with an independent VT500 reference (exact for valid UTF-8, ASCII projection + structural rules otherwise).  Exploration is the right level: the input space is unbounded, the control structure (14 states x byte classes at which a printable byte can arrive) is covered completely and reported as a matrix.",
        "design_ref": "7 C01, 3.1, 8.1",
        "note": "trusts refmodel::vt (hand-written from the Williams diagram, cross-checked against the parser by C02); says nothing about inputs not generated",
        "technique": RM,
    },
    "C02": {
        "text": "All 3840 consulted cells of the transition function compared with the reference machine, every callback (with arguments) compared event-for-event on bounded-exhaustive strings and seeded grammar streams that exercise the 32/2/16/65535 limits, CAN/SUB replay from every state, a clone of the parser taken at any point continues like the original, and the iterator adapters of every dispatched parameter list agree with plain iteration.  Exploration: exhaustive for the finite table, sampled for the unbounded stream space.",
        "design_ref": "7 C02, 3.1, 8.2, 8.3",
        "note": "trusts refmodel::vt; for a byte that cuts a multi-byte character short both decoder policies are accepted, and for OSC strings with more than 16 fields the 16th parameter only has to begin with the 16th field (neither is settled by the statement)",
        "technique": RM + "; exhaustive table-cell comparison",
    },
    "C03": {
        "text": "Every partition of every enumerated short input and 7 chunkers + one targeted cut per parser state on long streams; chunked output and final adapter state compared with the one-shot run of the same entry point (also through StrippedBytes::extend, and with the one-shot iterators consumed partly by hand and finished through to_string / Display / into_vec).  Exploration over (input, partition) pairs; cut-state coverage matrix reported.",
        "design_ref": "7 C03",
        "note": "metamorphic oracle (no model needed); adapter state compared through the public Clone/PartialEq + probe suffixes",
        "technique": "runtime monitoring: metamorphic chunked-vs-one-shot oracle with clone-and-probe of the final state, exhaustive partitions",
    },
    "C06": {
        "text": "Every inner-writer script of short counts {0,1,2,3,all} and errors {Interrupted, WouldBlock, Other} up to the depth bound (4 quick / 6 thorough) against 48 escape-rich inputs, for write, write_all, write_vectored and write_fmt, through StripStream and AutoStream::never; each call's result checked against what the inner writer accepted, the retry protocol driven to completion and the final state probed.  Fault enumeration: the fault space is finite per depth and enumerated completely; inputs beyond the fixed list are sampled.",
        "design_ref": "7 C06",
        "note": "trusts refmodel::vt::RefStrip; assumes a caller may retry after any error (std Write contract)",
        "technique": "runtime monitoring: scripted fault-injecting inner writer + per-call history checker against a reference stripper, exhaustive fault scripts",
    },
    "C07": {
        "text": "All single SGR sequences of up to 3 (quick) / 4 (thorough) attribute groups over a 40-group representative set from three start states, plus seeded SGR-grammar documents under chunking; style of every visible character compared with an independent SGR interpreter.",
        "design_ref": "7 C07, 3.2, 8.4, 8.5",
        "note": "trusts refmodel::{vt,sgr}; sequences selecting two different underline styles in one reset epoch are outside the explored domain",
        "technique": RM,
    },
    "C17": {
        "text": "All 17x17 colour pairs on every writer kind (Vec, File, the three dyn Write trait-object kinds, and Stdout / StdoutLock / Stderr / StderrLock in child processes with both pipes captured), all fault scripts up to the depth bound at each of the up-to-four inner writes, File after a failed call, every data length up to 1100 bytes on every writer kind, standard streams on /dev/full, a coloured write from a thread-local destructor, and several threads writing through the process-wide handles (the pipe must be a concatenation of whole frames); sinks with room for 1-40 bytes per call; output parsed and interpreted by the reference models, return value compared with the bytes the writer accepted.  Under faults the verdict does not depend on how the inner writes are grouped: a successful call left exactly one correct frame around the accepted data, a reported error is one an inner write produced.",
        "design_ref": "7 C17",
        "note": "trusts refmodel::{vt,sgr}",
        "technique": "runtime monitoring: scripted fault-injecting writer + reference interpretation of the accepted bytes, exhaustive colour pairs and fault scripts",
    },
    "C18": {
        "text": "The Windows-only stream source is compiled from the working tree into the harness and driven against a recording / misbehaving console: all console scripts up to the depth bound x short inputs x 7 call shapes (write, write_all, write_vectored, and write! with run-time, literal, large and char-sized fragments), SGR-grammar texts under chunkings, long runs around 2^k bytes, hostile streams, and lock() on the standard-stream variants in child processes.  A write that failed with Interrupted is retried with the same buffer (std Write contract).  Two recorded known findings: write reports a buffer as consumed after a short console write (F14) and is not retry-safe after Interrupted (F16).",
        "design_ref": "7 C18, 6 F14 F16, 9",
        "note": "covers the platform-independent stream only (as the property says); Windows console API code is never executed here",
        "technique": "runtime monitoring: recording console writer + reference run model, exhaustive fault scripts",
    },
    "C05": {
        "text": "Everything a style can render is parsed and interpreted by independent VT and SGR models: exhaustive over effect sets and every colour value per slot, seeded random combinations, ~240 format-flag specs on a subset (the alternate flag also on render()); Display, write_to and reset paths compared byte for byte, the io::Write path also into writers that take one or three bytes per call, fail with Interrupted, or gather, and the Display and io::Write paths into fixed-capacity sinks that refuse a piece and stay usable (success means the whole rendering was delivered).",
        "design_ref": "7 C05, 8.4",
        "note": "trusts refmodel::{vt,sgr}; underline codes read as independent flags",
        "technique": RM,
    },
    "C10": {
        "text": "Optimality and tie-breaking checked against an own distance/argmin for every explored (colour, palette); thorough tier enumerates all 2^24 RGB values for both targets and 29 palettes (built-in, random, near-built-in, permuted built-in, bright-repeats-normal, entries one step apart, all-one-corner, one slot recoloured, pastel, dark), quick tier a lattice plus near-candidate random colours over 33 palettes.  All finite conversions exhaustive in both tiers.",
        "design_ref": "7 C10, 3.3, 8.10",
        "note": "the integer red-mean weights are taken as the specification of the metric",
        "technique": RM + " (exhaustive over 2^24 colours in the thorough tier)",
    },
    "C11": {
        "text": "Accept/reject, denotation, error variant and the word the error names compared with an independent recogniser (with several offending words any of them may be the one reported) on exhaustive word combinations, hex near-misses (incl. signs and non-ASCII), single-edit mutations, words glued together or behind doubled negation prefixes, letters replaced by case-folding confusables, the same description repeated in different letter cases, seeded sentences and arbitrary Unicode; print/parse round trip for every expressible style sampled.",
        "design_ref": "7 C11, 3.4, 8.6",
        "note": "inputs whose meaning the statement leaves open are checked for panics only",
        "technique": RM,
    },
    "C12": {
        "text": "Result compared with an independent left-to-right SGR-list interpreter on exhaustive 1-3 code lists, extended-colour forms, seeded long lists with leading zeros and malformed inputs.",
        "design_ref": "7 C12, 3.4, 8.6",
        "note": "truncated extended-colour forms and signed numbers are checked for panics only",
        "technique": RM,
    },
    "C13": {
        "text": "The set laws are checked on all 16.7M pairs of effect sets and all single sets, the colour bijection on all 16/256 values; setter/getter/operator laws on seeded random styles; iterator laws after partial consumption, Debug under format flags, ==/!= complements and structural equality / ordering / hashing of colour values.  The finite part of the statement is enumerated completely.",
        "design_ref": "7 C13",
        "note": "the model is a u16 bit set built from contains() observations only (no assumption on the bit layout)",
        "technique": "runtime monitoring: exhaustive law checking against a bit-set model",
    },
    "C16": {
        "text": "For each of the five adapters the target library renders the converted style and an independent SGR interpreter reads it back: every colour value in every slot, every palette pair and every effect set are enumerated (factorised), plus seeded random styles; nothing may become bright; for termcolor a second set_color replaces the first.  Exploration with the factorised finite space covered completely.  termcolor's dropped strikethrough is a recorded known finding (F13).",
        "design_ref": "7 C16, 8.8, 6 F11-F13",
        "note": "trusts refmodel::sgr and the third-party libraries' own renderers; the expressibility table is an assumption taken from their public APIs",
        "technique": "runtime monitoring: round trip through the target library's renderer + reference SGR interpreter, exhaustive factorised enumeration",
    },
    "C20": {
        "text": "The parser is really built four times (no features, core, core+utf8, utf8) and each build is monitored against the reference machine on the same seeded 7-bit streams and on all oversize-OSC shapes; cross-build identity is checked through a hash of the event logs of the streams that fit the fixed buffer.",
        "design_ref": "7 C20",
        "note": "trusts refmodel::vt with the OSC cap modelled as 'first 1024 payload bytes, later bytes and separators dropped'",
        "technique": "runtime monitoring: one monitor binary per feature configuration + differential reference-model oracle",
    },
    "C08": {
        "text": "Seeded operation sequences are applied in lock-step to every constructor / choice of AutoStream, to StripStream and to the bare writer, over the writer kinds (in-memory, borrowed, boxed dyn with injected short counts and errors, &mut dyn / Box<dyn + Send>, the deprecated Buffer, file); results of every call, reported mode and recovered bytes are compared (under injected faults call by call only while both streams offer their writer the same buffers, otherwise by consistency with the consumed counts), the bytes each call consumed re-sent with write_all only must give the same output, and formatted writes carry values whose Display fails and fragments of 1 KiB - 64 KiB.  Further lanes: to_adapted_string against the stream it stands in for (C09 child log + generated texts), sequences split across lock() (child process), and anstream built with the feature sets none / auto / wincon.",
        "design_ref": "7 C08",
        "note": "metamorphic oracle (Never == StripStream, AlwaysAnsi/Always == identity); Windows-only Wincon arm is not reachable on this platform",
        "technique": "runtime monitoring: lock-step differential execution of operation histories against reference streams",
    },
    "C09": {
        "text": "The whole finite configuration space named by the property (3072 environments x 9 stream kinds, stdout / stderr on pipes, on a pty and in the two mixed layouts, and with descriptors 1 and 2 re-attached while the process runs) is enumerated in a single-threaded child and every decision logged; an offline checker evaluates the documented decision table over the event log and requires every tuple to be present.  COLORTERM, 25 further TERM names, the clap flag mapping and unusual values (incl. variables that are not Unicode) are covered separately; a panic of the decision code in the child is a violation.",
        "design_ref": "7 C09, 3.4",
        "note": "needs a pty for the terminal half (inconclusive, not passed, if none can be opened); Windows-specific probes are not executed",
        "technique": "runtime monitoring: exhaustive configuration enumeration in a child process + offline event-log checker against a decision table",
    },
    "C19": {
        "text": "Real threads print uniquely tagged multi-fragment records through twelve print paths (macros, stdout()/stderr(), lock(), &mut / Box handles; also in a build with anstream's `test` feature) into pipes; an offline checker verifies contiguity, exactly-once and per-thread order on the byte streams and reports how many thread switches it saw.  The global choice is checked as an atomic register over recorded histories, natively, under Miri (16/128 scheduler seeds, with a canary race that must be reported) and under ThreadSanitizer (thorough).  Schedules are those the OS / Miri produced: counted, not enumerated.",
        "design_ref": "7 C19, 5",
        "note": "delay injection is on the caller side (Display impls); no hook inside the library",
        "technique": "runtime monitoring: offline history checker over pipe output (contiguity / exactly-once / order), register history checker, Miri many-seeds and ThreadSanitizer lanes",
    },
    "C14": {
        "text": "Every generated document is rendered under 20 terminal configurations (round-robin) and parsed by expat; text per line, denotation of every class used, background layer, default colours, line positions and canvas height are checked against reference VT/SGR/palette models; fixed small captures (reverse video without any background, CR LF pairs split across styled runs, zero-width-only fragments) and one capture larger than 1 MiB are part of every run.",
        "design_ref": "7 C14, 8.7, 6 F17",
        "note": "class denotation is read from the CSS declarations; Python's expat is the trusted XML parser",
        "technique": "runtime monitoring: offline checker over recorded outputs (independent XML parse + reference-model expectation)",
    },
    "C15": {
        "text": "The roff document is read back by an independent reader that enforces the request/text structure (so no text line can act as a request) and compared per character with the reference interpretation; exhaustive over colour pairs x effect subsets for one segment, seeded multi-segment texts with roff-special characters.",
        "design_ref": "7 C15, 8.9",
        "note": "domain as given by the property: self-contained sequences with 16-colour codes",
        "technique": RM + " (independent roff reader)",
    },
    "C04": {
        "text": "One hostile workload over all input-consuming entry points, repeated per instrumentation lane: release (monitor validates every returned piece), debug assertions + overflow checks, AddressSanitizer, Miri (sharded over 16 interpreters) and valgrind memcheck (thorough); every sanitizer lane first proves it is live on a deliberate canary bug.  Exploration: held on the executions observed, per lane.",
        "design_ref": "7 C04, 5",
        "note": "sanitizers only see reached code; Miri cannot cross FFI (none is involved); TSan is used by C19, not here",
        "technique": "sanitizers and UB interpreter: debug assertions/overflow checks, AddressSanitizer, Miri, valgrind memcheck over a hostile generated workload with canaries",
    },
}
