#!/usr/bin/env python3
"""Developer helper: validate MANIFEST.json and evidence files against the schemas (python3-vt has jsonschema)."""
import json, sys, glob
import jsonschema
m = json.load(open('/root/.vp/MANIFEST.schema.json'))
e = json.load(open('/root/.vp/EVIDENCE.schema.json'))
jsonschema.validate(json.load(open('/verif/MANIFEST.json')), m)
print('MANIFEST ok')
for f in sorted(glob.glob('/verif/evidence/*.json')):
    jsonschema.validate(json.load(open(f)), e)
    print(f, 'ok')
