//! Independent reference VT500 parser (Williams) + deviations: utf8, BEL-terminated OSC, 7-bit controls, ':' sub-parameters
#[derive(Debug, Clone, PartialEq, Eq)]
pub enum Ev {
    Print(char),
    Execute(u8),
    Hook { params: Vec<Vec<u16>>, inter: Vec<u8>, ignore: bool, fin: u8 },
    Put(u8),
    Unhook,
    Osc { params: Vec<Vec<u8>>, bell: bool },
    Csi { params: Vec<Vec<u16>>, inter: Vec<u8>, ignore: bool, fin: u8 },
    Esc { inter: Vec<u8>, ignore: bool, fin: u8 },
}
#[derive(Debug, Clone, Copy, PartialEq, Eq)]
pub enum St { Ground, Escape, EscInt, CsiEntry, CsiParam, CsiInt, CsiIgnore, DcsEntry, DcsParam, DcsInt, DcsPass, DcsIgnore, Osc, Sos }

#[derive(Clone)]
pub struct Ref {
    pub st: St,
    pub utf8_need: u8, utf8_lo: u8, utf8_hi: u8, utf8_cp: u32,
    inter: Vec<u8>, ignore: bool,
    nums: Vec<u16>, groups: Vec<usize>, // groups: start index of each group
    cur: u16, in_group: bool,
    osc: Vec<u8>,
    pub ev: Vec<Ev>,
    pub reprocess: bool,
}
impl Ref {
    pub fn new() -> Self { Ref { st: St::Ground, utf8_need: 0, utf8_lo: 0, utf8_hi: 0, utf8_cp: 0, inter: vec![], ignore: false, nums: vec![], groups: vec![], cur: 0, in_group: false, osc: vec![], ev: vec![], reprocess: false } }
    fn clear(&mut self) { self.inter.clear(); self.ignore = false; self.nums.clear(); self.groups.clear(); self.cur = 0; self.in_group = false; }
    fn collect(&mut self, b: u8) { if self.inter.len() == 2 { self.ignore = true } else { self.inter.push(b) } }
    fn push_num(&mut self, end_group: bool) {
        if !self.in_group { self.groups.push(self.nums.len()); }
        self.nums.push(self.cur); self.cur = 0; self.in_group = !end_group;
    }
    fn param(&mut self, b: u8) {
        if self.nums.len() == 32 { self.ignore = true; return; }
        match b { b';' => self.push_num(true), b':' => self.push_num(false), _ => { self.cur = self.cur.saturating_mul(10).saturating_add((b - b'0') as u16) } }
    }
    fn finish_params(&mut self) -> Vec<Vec<u16>> {
        if self.nums.len() == 32 { self.ignore = true } else { self.push_num(true) }
        let mut out = vec![];
        for (i, &s) in self.groups.iter().enumerate() { let e = if i + 1 < self.groups.len() { self.groups[i + 1] } else { self.nums.len() }; out.push(self.nums[s..e].to_vec()); }
        out
    }
    fn exit(&mut self, bell: bool) {
        match self.st {
            St::DcsPass => self.ev.push(Ev::Unhook),
            St::Osc => { let mut f: Vec<Vec<u8>> = self.osc.split(|&c| c == b';').map(|s| s.to_vec()).collect(); f.truncate(16); self.ev.push(Ev::Osc { params: f, bell }); }
            _ => {}
        }
    }
    fn enter(&mut self, st: St, b: u8) {
        match st {
            St::Escape | St::CsiEntry | St::DcsEntry => self.clear(),
            St::DcsPass => { let p = self.finish_params(); self.ev.push(Ev::Hook { params: p, inter: self.inter.clone(), ignore: self.ignore, fin: b }); }
            St::Osc => self.osc.clear(),
            _ => {}
        }
        self.st = st;
    }
    fn go(&mut self, st: St, b: u8) { self.exit(b == 7); self.enter(st, b); }
    fn utf8(&mut self, b: u8) {
        if b >= self.utf8_lo && b <= self.utf8_hi {
            self.utf8_cp = (self.utf8_cp << 6) | (b & 0x3f) as u32; self.utf8_need -= 1; self.utf8_lo = 0x80; self.utf8_hi = 0xbf;
            if self.utf8_need == 0 { self.ev.push(Ev::Print(char::from_u32(self.utf8_cp).unwrap())); }
        } else { self.utf8_need = 0; self.ev.push(Ev::Print('\u{fffd}')); if self.reprocess { self.step(b); } }
    }
    pub fn step(&mut self, b: u8) {
        if self.utf8_need > 0 { self.utf8(b); return; }
        match b { 0x18 | 0x1a => { self.go(St::Ground, b); self.ev.push(Ev::Execute(b)); return; } 0x1b => { self.go(St::Escape, b); return; } _ => {} }
        let c0 = b < 0x20; // excluding 18,1a,1b handled above
        match self.st {
            St::Ground => match b {
                _ if c0 => self.ev.push(Ev::Execute(b)),
                0x20..=0x7f => self.ev.push(Ev::Print(b as char)),
                0x80..=0x8f | 0x91..=0x9a | 0x9c => self.ev.push(Ev::Execute(b)),
                0xc2..=0xdf => { self.utf8_need = 1; self.utf8_cp = (b & 0x1f) as u32; self.utf8_lo = 0x80; self.utf8_hi = 0xbf; }
                0xe0..=0xef => { self.utf8_need = 2; self.utf8_cp = (b & 0x0f) as u32; self.utf8_lo = if b == 0xe0 { 0xa0 } else { 0x80 }; self.utf8_hi = if b == 0xed { 0x9f } else { 0xbf }; }
                0xf0..=0xf4 => { self.utf8_need = 3; self.utf8_cp = (b & 0x07) as u32; self.utf8_lo = if b == 0xf0 { 0x90 } else { 0x80 }; self.utf8_hi = if b == 0xf4 { 0x8f } else { 0xbf }; }
                _ => {}
            },
            St::Escape => match b {
                _ if c0 => self.ev.push(Ev::Execute(b)),
                0x20..=0x2f => { self.collect(b); self.st = St::EscInt; }
                0x5b => self.go(St::CsiEntry, b), 0x5d => self.go(St::Osc, b), 0x50 => self.go(St::DcsEntry, b),
                0x58 | 0x5e | 0x5f => self.go(St::Sos, b),
                0x30..=0x7e => { self.ev.push(Ev::Esc { inter: self.inter.clone(), ignore: self.ignore, fin: b }); self.st = St::Ground; }
                _ => {}
            },
            St::EscInt => match b {
                _ if c0 => self.ev.push(Ev::Execute(b)),
                0x20..=0x2f => self.collect(b),
                0x30..=0x7e => { self.ev.push(Ev::Esc { inter: self.inter.clone(), ignore: self.ignore, fin: b }); self.st = St::Ground; }
                _ => {}
            },
            St::CsiEntry | St::CsiParam | St::CsiInt | St::CsiIgnore => match b {
                _ if c0 => self.ev.push(Ev::Execute(b)),
                0x40..=0x7e => { if self.st != St::CsiIgnore { let p = self.finish_params(); self.ev.push(Ev::Csi { params: p, inter: self.inter.clone(), ignore: self.ignore, fin: b }); } self.st = St::Ground; }
                0x20..=0x2f => { if self.st != St::CsiIgnore { self.collect(b); self.st = St::CsiInt; } }
                0x30..=0x3b => match self.st { St::CsiEntry | St::CsiParam => { self.param(b); self.st = St::CsiParam; } St::CsiInt => self.st = St::CsiIgnore, _ => {} },
                0x3c..=0x3f => match self.st { St::CsiEntry => { self.collect(b); self.st = St::CsiParam; } St::CsiParam | St::CsiInt => self.st = St::CsiIgnore, _ => {} },
                _ => {}
            },
            St::DcsEntry | St::DcsParam | St::DcsInt => match b {
                0x40..=0x7e => self.go(St::DcsPass, b),
                0x20..=0x2f => { self.collect(b); self.st = St::DcsInt; }
                0x30..=0x3b => match self.st { St::DcsInt => self.st = St::DcsIgnore, _ => { self.param(b); self.st = St::DcsParam; } },
                0x3c..=0x3f => match self.st { St::DcsEntry => { self.collect(b); self.st = St::DcsParam; } _ => self.st = St::DcsIgnore },
                _ => {}
            },
            St::DcsPass => match b { 0x9c => self.go(St::Ground, b), 0x7f => {}, 0x00..=0x7e => self.ev.push(Ev::Put(b)), _ => {} },
            St::DcsIgnore | St::Sos => if b == 0x9c { self.st = St::Ground },
            St::Osc => match b { 0x07 => self.go(St::Ground, b), 0x20..=0xff => self.osc.push(b), _ => {} },
        }
    }
}
