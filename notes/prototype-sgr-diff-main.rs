mod refvt;
use refvt::*;
use anstyle::*;

// Reference SGR state: independent of anstyle's adapter. Underline styles modelled as independent flags like anstyle::Effects
#[derive(Clone, Copy, PartialEq, Eq, Debug, Default)]
struct Sgr { fg: Option<Color>, bg: Option<Color>, ul: Option<Color>, eff: u16 }
const BOLD:u16=1; const DIM:u16=2; const ITAL:u16=4; const UL:u16=8; const DUL:u16=16; const CURLY:u16=32; const DOT:u16=64; const DASH:u16=128; const INV:u16=512; const HID:u16=1024; const STRIKE:u16=2048;
fn ansi(n: u16) -> AnsiColor { [AnsiColor::Black,AnsiColor::Red,AnsiColor::Green,AnsiColor::Yellow,AnsiColor::Blue,AnsiColor::Magenta,AnsiColor::Cyan,AnsiColor::White,AnsiColor::BrightBlack,AnsiColor::BrightRed,AnsiColor::BrightGreen,AnsiColor::BrightYellow,AnsiColor::BrightBlue,AnsiColor::BrightMagenta,AnsiColor::BrightCyan,AnsiColor::BrightWhite][n as usize] }
fn apply(s: &mut Sgr, params: &[Vec<u16>]) {
    // flatten into tokens: each param group; 38/48/58 may take following groups (';' form) or own subparams (':' form)
    let mut i = 0;
    while i < params.len() {
        let g = &params[i]; i += 1;
        let code = g[0];
        match code {
            38 | 48 | 58 => {
                let vals: Vec<u16> = if g.len() > 1 { g[1..].to_vec() } else {
                    // ';' form: consume following groups
                    let mut v = vec![];
                    if i < params.len() { let kind = params[i][0]; v.push(kind); i += 1; let need = if kind == 5 { 1 } else if kind == 2 { 3 } else { 0 }; for _ in 0..need { if i < params.len() { v.push(params[i][0]); i += 1; } } }
                    v
                };
                let col = match vals.as_slice() { [5, n] if *n < 256 => Some(Color::Ansi256(Ansi256Color(*n as u8))), [2, r, g, b] if *r < 256 && *g < 256 && *b < 256 => Some(Color::Rgb(RgbColor(*r as u8, *g as u8, *b as u8))), _ => None };
                if let Some(c) = col { match code { 38 => s.fg = Some(c), 48 => s.bg = Some(c), _ => s.ul = Some(c) } }
            }
            4 if g.len() > 1 => { match g[1] { 0 => s.eff &= !UL, 1 => s.eff |= UL, 2 => { s.eff &= !UL; s.eff |= DUL } 3 => { s.eff &= !UL; s.eff |= CURLY } 4 => { s.eff &= !UL; s.eff |= DOT } 5 => { s.eff &= !UL; s.eff |= DASH } _ => {} } }
            _ if g.len() > 1 => {}
            0 => *s = Sgr::default(),
            1 => s.eff |= BOLD, 2 => s.eff |= DIM, 3 => s.eff |= ITAL, 4 => s.eff |= UL, 21 => s.eff |= DUL, 7 => s.eff |= INV, 8 => s.eff |= HID, 9 => s.eff |= STRIKE,
            30..=37 => s.fg = Some(ansi(code - 30).into()), 39 => s.fg = None,
            40..=47 => s.bg = Some(ansi(code - 40).into()), 49 => s.bg = None,
            90..=97 => s.fg = Some(ansi(code - 90 + 8).into()), 100..=107 => s.bg = Some(ansi(code - 100 + 8).into()),
            _ => {}
        }
    }
}
fn to_style(s: &Sgr) -> Style {
    let mut e = Effects::new();
    for (bit, ef) in [(BOLD,Effects::BOLD),(DIM,Effects::DIMMED),(ITAL,Effects::ITALIC),(UL,Effects::UNDERLINE),(DUL,Effects::DOUBLE_UNDERLINE),(CURLY,Effects::CURLY_UNDERLINE),(DOT,Effects::DOTTED_UNDERLINE),(DASH,Effects::DASHED_UNDERLINE),(INV,Effects::INVERT),(HID,Effects::HIDDEN),(STRIKE,Effects::STRIKETHROUGH)] { if s.eff & bit != 0 { e = e.insert(ef); } }
    Style::new().fg_color(s.fg).bg_color(s.bg).underline_color(s.ul).effects(e)
}
fn ref_runs(v: &[u8]) -> Vec<(Style, char)> {
    let mut r = Ref::new(); for &b in v { r.step(b); }
    let mut s = Sgr::default(); let mut out = vec![];
    for e in &r.ev { match e {
        Ev::Print(c) => out.push((to_style(&s), *c)),
        Ev::Execute(b) if matches!(b, 9|10|12|13) => out.push((to_style(&s), *b as char)),
        Ev::Csi { params, inter, ignore, fin } if *fin == b'm' && inter.is_empty() && !*ignore => apply(&mut s, params),
        _ => {} } }
    out
}
fn impl_runs(v: &[u8]) -> Vec<(Style, char)> {
    let mut w = anstream::adapter::WinconBytes::new(); let mut out = vec![];
    for (st, t) in w.extract_next(v) { for c in t.chars() { out.push((st, c)); } }
    out
}
fn main() {
    // attribute groups (well-formed)
    let mut groups: Vec<String> = vec![];
    for c in ["0","","1","2","3","4","7","8","9","21","31","39","42","49","95","104","4:0","4:1","4:3","4:5","38;5;196","38:5:196","48;5;3","58;5;200","38;2;1;2;3","48:2:4:5:6","58;2;7;8;9","58:2:7:8:9","10","26","55","99","150","01","004"] { groups.push(c.to_string()); }
    let n = groups.len();
    let mut classes: std::collections::BTreeMap<String, (u64, String)> = Default::default();
    let (mut total, mut bad) = (0u64, 0u64);
    for len in 1..=3usize {
        for idx in 0..n.pow(len as u32) {
            let mut gs = vec![]; let mut k = idx; for _ in 0..len { gs.push(groups[k % n].clone()); k /= n; }
            let seq = format!("a\x1b[{}mb", gs.join(";"));
            total += 1;
            let a = impl_runs(seq.as_bytes()); let b = ref_runs(seq.as_bytes());
            if a != b { bad += 1;
                // classify: first group kind that precedes divergence
                let key = format!("{}", gs.iter().map(|g| if g.starts_with("4") && !g.starts_with("4:") && g != "42" && g != "49" { "4" } else if g.starts_with("38")||g.starts_with("48")||g.starts_with("58") { if g.contains(':') {"ext:"} else {"ext;"} } else if g.starts_with("4:") { "4:n" } else { "x" }).collect::<Vec<_>>().join(","));
                let e = classes.entry(key).or_insert((0, seq.clone())); e.0 += 1; }
        }
    }
    println!("total {total} bad {bad}");
    for (k, (c, ex)) in &classes { println!("  {k}: {c} e.g. {ex:?}"); }
    // private marker / intermediates
    for s in ["a\x1b[>4;2mb", "a\x1b[?1mb", "a\x1b[1 mb", "a\x1b[1$mb"] { println!("{:?} impl {:?} ref {:?}", s, impl_runs(s.as_bytes()).last(), ref_runs(s.as_bytes()).last()); }
}
