#!/usr/bin/env python3
"""Developer tool: run every quick check against every kept seeded break and record which checks fire.

  selftest/matrix.py [--jobs 3] [--only C01-m1,...] [--checks C01,C02,...] [--with-c04 C01,C02,...]
  selftest/matrix.py --related 1 [--jobs 3]      own check plus the checks of neighbouring properties only (RELATED)
  selftest/matrix.py --own 1 [--jobs 3]          the check of the property the break was written against only

Results go into seeded/<id>/meta.json ("checks") and seeded/MATRIX.md."""
import concurrent.futures as cf
import glob
import json
import os
import re
import subprocess
import sys

VERIF = os.path.dirname(os.path.dirname(os.path.abspath(__file__)))
ALL = ["C%02d" % i for i in range(1, 21)]


RELATED = {
    "C01": ["C01", "C02", "C03", "C06", "C08"], "C02": ["C02", "C01", "C03", "C20"], "C03": ["C03", "C01", "C06", "C08"],
    "C04": ["C04", "C02", "C10", "C11", "C12", "C20"], "C05": ["C05", "C13"], "C06": ["C06", "C08", "C19"], "C07": ["C07", "C14", "C18"],
    "C08": ["C08", "C06", "C09"], "C09": ["C09", "C08"], "C10": ["C10"], "C11": ["C11"], "C12": ["C12"],
    "C13": ["C13", "C05"], "C14": ["C14", "C07"], "C15": ["C15"], "C16": ["C16"], "C17": ["C17", "C18"], "C18": ["C18", "C17"],
    "C19": ["C19", "C06"], "C20": ["C20", "C02", "C01"],
}


def run_one(d, checks):
    env = dict(os.environ, TIER="quick")
    r = subprocess.run([VERIF + "/selftest/run_mutant.sh", os.path.join(d, "patch.diff")] + checks, stdout=subprocess.PIPE, stderr=subprocess.STDOUT, text=True, env=env)
    out = {}
    sigs = []
    for l in r.stdout.splitlines():
        ms = re.match(r"^  sig=(\S+) count=(\d+)", l)
        if ms:
            sigs.append({"sig": ms.group(1), "count": int(ms.group(2))})
        me = re.match(r"^== (\S+) exit=(\d+)", l)
        if me:
            out[me.group(1)] = {"tier": "quick", "detected": me.group(2) == "1", "exit": int(me.group(2)), "signatures": sigs[:6]}
            sigs = []
    return d, out


def main():
    args = sys.argv[1:]
    jobs = 3
    only = None
    checks = [c for c in ALL if c != "C04"]
    with_c04 = ["C01", "C02", "C03", "C04", "C07", "C11", "C12", "C20"]
    related = False
    own = False
    i = 0
    while i < len(args):
        if args[i] == "--jobs":
            jobs = int(args[i + 1])
        elif args[i] == "--only":
            only = args[i + 1].split(",")
        elif args[i] == "--checks":
            checks = args[i + 1].split(",")
        elif args[i] == "--related":
            related = True
        elif args[i] == "--own":
            own = True
        elif args[i] == "--with-c04":
            with_c04 = [x for x in args[i + 1].split(",") if x]
        i += 2
    dirs = sorted(d for d in glob.glob(VERIF + "/seeded/C*-*m[0-9]") if os.path.exists(d + "/patch.diff"))
    if only:
        dirs = [d for d in dirs if os.path.basename(d) in only]
    work = []
    for d in dirs:
        prop = os.path.basename(d).split("-")[0]
        cs = list(checks)
        if own:
            cs = [prop]
        elif related:
            cs = list(RELATED[prop])
        elif prop in with_c04 and "C04" not in cs:
            cs.append("C04")
        work.append((d, cs))
    with cf.ThreadPoolExecutor(max_workers=jobs) as ex:
        for d, out in ex.map(lambda w: run_one(*w), work):
            mp = os.path.join(d, "meta.json")
            meta = json.load(open(mp))
            meta.setdefault("checks", {}).update(out)
            json.dump(meta, open(mp, "w"), indent=1)
            fired = [k for k, v in out.items() if v["detected"]]
            bad = [k for k, v in out.items() if v["exit"] not in (0, 1)]
            print(os.path.basename(d), "fired:", ",".join(fired) or "-", ("  NON-0/1 EXIT: " + ",".join(bad)) if bad else "", flush=True)
    write_matrix()


def write_matrix():
    dirs = sorted(d for d in glob.glob(VERIF + "/seeded/C*-*m[0-9]") if os.path.exists(d + "/meta.json"))
    lines = ["# Which checks catch which seeded breaks (quick tier)", "",
             "`X` = the check exits 1 with a VIOLATION line on the break, `.` = it stays silent, blank = not run.",
             "Every break compiles, passes the repository's own suite and fails its demonstration (see each `meta.json`).", "",
             "| break | property | " + " | ".join(c[1:] for c in ALL) + " | summary |", "|---|---|" + "---|" * (len(ALL) + 1)]
    for d in dirs:
        meta = json.load(open(d + "/meta.json"))
        row = []
        for c in ALL:
            v = meta.get("checks", {}).get(c)
            row.append(" " if v is None else ("X" if v.get("detected") else "."))
        lines.append("| %s | %s | %s | %s |" % (os.path.basename(d), meta["property"], " | ".join(row), (meta.get("summary") or "").replace("|", "/")[:140]))
    own = sum(1 for d in dirs if json.load(open(d + "/meta.json")).get("checks", {}).get(json.load(open(d + "/meta.json"))["property"], {}).get("detected"))
    lines += ["", "%d of %d kept breaks are caught by the check of the property they were written against." % (own, len(dirs))]
    open(VERIF + "/seeded/MATRIX.md", "w").write("\n".join(lines) + "\n")


if __name__ == "__main__":
    if len(sys.argv) > 1 and sys.argv[1] == "--table-only":
        write_matrix()
    else:
        main()
