#!/usr/bin/env python3
"""Developer tool: confirm seeded breaks delivered under /tmp/wt-<ID>/OUT/m*/ and run the checks against them.

  selftest/process.py <ID> [--only m2] [--crate m2=anstream] [--also C04,C03] [--tier quick]

For each change: selftest/verify_mutant.sh (patch applies, repository suite passes, demonstration fails with / passes
without the change) and selftest/run_mutant.sh for the property and the --also properties.  A change that is confirmed is
kept as /verif/seeded/<ID>-mN/ (patch.diff, demonstration, README.md, meta.json)."""
import glob
import json
import os
import re
import shutil
import subprocess
import sys

VERIF = os.path.dirname(os.path.dirname(os.path.abspath(__file__)))


def main():
    args = sys.argv[1:]
    pid = args[0]
    only = None
    crates = {}
    also = []
    tier = "quick"
    src = "/tmp/wt-%s/OUT" % pid
    demo_args = {}
    prefix = ""
    i = 1
    while i < len(args):
        if args[i] == "--only":
            only = args[i + 1]
        elif args[i] == "--crate":
            k, v = args[i + 1].split("=")
            crates[k] = v
        elif args[i] == "--also":
            also = args[i + 1].split(",")
        elif args[i] == "--tier":
            tier = args[i + 1]
        elif args[i] == "--demo-args":
            k, v = args[i + 1].split("=", 1)
            demo_args[k] = v
        elif args[i] == "--prefix":
            prefix = args[i + 1]
        elif args[i] == "--src":
            src = args[i + 1]
        i += 2
    for d in sorted(glob.glob(src + "/m*/")):
        name = os.path.basename(d.rstrip("/"))
        if only and name != only:
            continue
        if not os.path.exists(d + "patch.diff"):
            continue
        crate = crates.get(name)
        readme = open(d + "README.md").read() if os.path.exists(d + "README.md") else ""
        m = re.search(r"DEMO_CRATE:\s*([A-Za-z0-9_-]+)", readme)
        if not crate and m:
            crate = m.group(1)
        cmd = [VERIF + "/selftest/verify_mutant.sh", d] + ([crate] if crate else [])
        v = subprocess.run(cmd, stdout=subprocess.PIPE, stderr=subprocess.STDOUT, text=True, env=dict(os.environ, DEMO_CARGO_ARGS=demo_args.get(name, "")))
        vlines = [l for l in v.stdout.splitlines() if re.match(r"^(demo |patch applies|existing suite|VERIFIED|NOT-VERIFIED|no demo)", l)]
        verified = any(l.startswith("VERIFIED") for l in vlines)
        print("##### %s %s  %s" % (pid, name, "VERIFIED" if verified else "NOT-VERIFIED"))
        for l in vlines[:-1]:
            print("   ", l[:200])
        env = dict(os.environ, TIER=tier)
        r = subprocess.run([VERIF + "/selftest/run_mutant.sh", d + "patch.diff", pid] + also, stdout=subprocess.PIPE, stderr=subprocess.STDOUT, text=True, env=env)
        caught = {}
        cur_sigs = []
        for l in r.stdout.splitlines():
            ms = re.match(r"^  sig=(\S+) count=(\d+)", l)
            if ms:
                cur_sigs.append({"sig": ms.group(1), "count": int(ms.group(2)), "msg": l.split(": ", 1)[-1][:300]})
            me = re.match(r"^== (\S+) exit=(\d+)", l)
            if me:
                caught[me.group(1)] = {"exit": int(me.group(2)), "signatures": cur_sigs}
                cur_sigs = []
        for k, c in caught.items():
            print("    check %s (%s): exit %d  %s" % (k, tier, c["exit"], ", ".join("%s x%d" % (s["sig"], s["count"]) for s in c["signatures"])[:300]))
        if verified:
            dst = os.path.join(VERIF, "seeded", "%s-%s%s" % (pid, prefix, name))
            os.makedirs(dst, exist_ok=True)
            shutil.copy(d + "patch.diff", dst)
            for f in glob.glob(d + "demo*.rs") + glob.glob(d + "README.md"):
                shutil.copy(f, dst)
            first = ""
            for para in readme.split("\n\n"):
                if para.strip() and not para.startswith("DEMO_CRATE") and not para.startswith("#"):
                    first = " ".join(para.split())[:600]
                    break
            meta = {
                "property": pid,
                "origin": "written by an independent sub-agent that saw only the property text and a scratch worktree" + (" (second round: additionally told the general shape of the checks and asked for changes they could plausibly miss)" if prefix else ""),
                "summary": first,
                "needs_to_manifest": "see README.md (written by the sub-agent)",
                "confirmed": {l.split(":")[0]: l.split(":", 1)[1].strip() for l in vlines if ":" in l and not l.startswith(("VERIFIED", "NOT-VERIFIED"))},
                "commands": [("DEMO_CARGO_ARGS='%s' " % demo_args[name] if demo_args.get(name) else "") + "selftest/verify_mutant.sh <dir>%s" % ((" " + crate) if crate else ""), "selftest/run_mutant.sh patch.diff %s" % " ".join([pid] + also)],
                "checks": {k: {"tier": tier, "detected": c["exit"] == 1, "signatures": c["signatures"][:6]} for k, c in caught.items()},
            }
            old = os.path.join(dst, "meta.json")
            if os.path.exists(old):
                try:
                    prev = json.load(open(old))
                    for k, c in prev.get("checks", {}).items():
                        meta["checks"].setdefault(k, c)
                except Exception:  # noqa
                    pass
            json.dump(meta, open(old, "w"), indent=1)


if __name__ == "__main__":
    main()
