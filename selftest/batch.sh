#!/bin/bash
# selftest/batch.sh <ID> [extra IDs to also run]   -- process /tmp/wt-<ID>/OUT/m*/
id=$1; shift
for m in /tmp/wt-$id/OUT/m*/; do
  [ -f "$m/patch.diff" ] || continue
  echo "##### $id $(basename $m)"
  /verif/selftest/verify_mutant.sh "$m" 2>&1 | tail -6
  TIER=${TIER:-quick} /verif/selftest/run_mutant.sh "$m/patch.diff" $id "$@" 2>&1 | grep -E "^(VIOLATION|VIOLATED|HELD|ERROR|INCONCLUSIVE|==|  sig|PATCH)" | cut -c1-260
done
