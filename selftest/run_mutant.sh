#!/bin/bash
# Developer tool (not a MANIFEST command): run checks against a seeded break in a scratch worktree of /repo.
#   selftest/run_mutant.sh <patch.diff> <ID> [<ID>...]      (tier from $TIER, default quick)
# The worktree and the mirrored harness (with its build output) are removed afterwards.
set -u
patch=$(readlink -f "$1"); shift
tier=${TIER:-quick}
wt=$(mktemp -d /tmp/vmut-XXXXXX)
rmdir "$wt"
git -C /repo worktree add -q --detach "$wt" HEAD || exit 2
cleanup() { git -C /repo worktree remove --force "$wt" 2>/dev/null; rm -rf "$wt" "$wt.verif-harness"; git -C /repo worktree prune; }
trap cleanup EXIT
if ! git -C "$wt" apply "$patch"; then echo "PATCH-DOES-NOT-APPLY $patch"; exit 2; fi
mkdir -p "$wt.verif-harness"
# seed the build cache with the registry dependencies already compiled for the real harness
[ -d /verif/harness/target ] && cp -a /verif/harness/target "$wt.verif-harness/target" 2>/dev/null
rc_all=0
for id in "$@"; do
  out=$(cd /verif && VERIF_REPO="$wt" VERIF_TIER=$tier ./check "$id" "$tier" 2>&1)
  rc=$?
  echo "$out" | grep -E "^(VIOLATION|KNOWN-FINDING|HELD|VIOLATED|INCONCLUSIVE|ERROR)|^  sig=" | cut -c1-400
  echo "== $id exit=$rc"
  [ $rc -ne 0 ] && rc_all=$rc
done
exit $rc_all
