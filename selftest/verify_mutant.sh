#!/bin/bash
# Developer tool: confirm that a seeded break (a) applies and compiles, (b) passes the repository's own test suite,
# (c) makes its demonstration fail while the demonstration passes on the unchanged tree.
#   selftest/verify_mutant.sh <dir-with-patch.diff-and-demo> [crate-for-demo]
# DEMO_CARGO_ARGS (env) adds cargo arguments for the demonstration run, e.g. "--no-default-features --features core".
# Prints one line per fact and a final VERIFIED / NOT-VERIFIED line.  Uses a scratch worktree that is removed afterwards;
# the shared build directory /tmp/vmut-target is reused between calls (remove it when done).
set -u
dir=$(readlink -f "$1")
patch="$dir/patch.diff"
demo=$(ls "$dir"/demo*.rs 2>/dev/null | head -1)
crate=${2:-$(grep -m1 '^diff --git a/crates/' "$patch" | sed 's|^diff --git a/crates/\([^/]*\)/.*|\1|')}
export CARGO_NET_OFFLINE=true CARGO_TARGET_DIR=${VMUT_TARGET:-/tmp/vmut-target}
wt=$(mktemp -d /tmp/vver-XXXXXX); rmdir "$wt"
git -C /repo worktree add -q --detach "$wt" HEAD || exit 2
cleanup() { git -C /repo worktree remove --force "$wt" 2>/dev/null; rm -rf "$wt" "$wt".demo0.log "$wt".demo1.log "$wt".suite.log; git -C /repo worktree prune; }
trap cleanup EXIT
ok=1
pkg=$(grep -m1 '^name' "$wt/crates/$crate/Cargo.toml" | sed 's/.*"\(.*\)".*/\1/')
[ "$pkg" = "anstream" ] && pkg="anstream@0.6.18"
if [ -n "$demo" ]; then
  mkdir -p "$wt/crates/$crate/tests"; cp "$demo" "$wt/crates/$crate/tests/vdemo.rs"
  if (cd "$wt" && cargo test --offline -q --manifest-path "$wt/crates/$crate/Cargo.toml" ${DEMO_CARGO_ARGS:-} --test vdemo >$wt.demo0.log 2>&1); then echo "demo passes on unchanged tree: yes"; else echo "demo passes on unchanged tree: NO ($(tail -3 $wt.demo0.log | tr '\n' ' ' | cut -c1-200))"; ok=0; fi
else
  echo "no demo*.rs found"; ok=0
fi
if ! git -C "$wt" apply "$patch"; then echo "patch applies: NO"; echo "NOT-VERIFIED $dir"; exit 1; fi
echo "patch applies: yes ($(git -C "$wt" diff --stat | tail -1 | sed 's/^ *//'))"
if [ -n "$demo" ]; then
  if (cd "$wt" && cargo test --offline -q --manifest-path "$wt/crates/$crate/Cargo.toml" ${DEMO_CARGO_ARGS:-} --test vdemo >$wt.demo1.log 2>&1); then echo "demo fails with the change: NO (it passes)"; ok=0; else
    if grep -q "could not compile\|^error\[E" $wt.demo1.log; then echo "demo fails with the change: COMPILE ERROR"; ok=0; else echo "demo fails with the change: yes"; fi; fi
  rm -f "$wt/crates/$crate/tests/vdemo.rs"
fi
(cd "$wt" && cargo test --workspace --no-fail-fast --offline >$wt.suite.log 2>&1)
passed=$(grep -E "^test result" $wt.suite.log | awk '{p+=$4; f+=$6} END {print p" passed "f" failed"}')
if grep -qE "^test result: FAILED|could not compile|^error" $wt.suite.log; then echo "existing suite with the change: FAILS ($passed)"; ok=0; else echo "existing suite with the change: passes ($passed)"; fi
if [ $ok = 1 ]; then echo "VERIFIED $dir"; else echo "NOT-VERIFIED $dir"; exit 1; fi
