#!/usr/bin/env python3
"""Developer tool: changes that are meant NOT to break a property (written by sub-agents, /tmp/wtb-<ID>/OUT/m*/): confirm that the
repository's suite passes with each and run the quick checks against it; every check is expected to stay silent.

  selftest/process_benign.py <ID> [--src DIR] [--also C04,C03] [--only m2] [--tag c]

A change is kept as /verif/seeded/_benign/<ID>-bN/ (patch.diff, README.md, demo if any, meta.json with the exit code of every check)."""
import glob
import json
import os
import re
import shutil
import subprocess
import sys

VERIF = os.path.dirname(os.path.dirname(os.path.abspath(__file__)))


def suite_passes(patch):
    wt = subprocess.run(["mktemp", "-d", "/tmp/vben-XXXXXX"], stdout=subprocess.PIPE, text=True).stdout.strip()
    os.rmdir(wt)
    subprocess.run(["git", "-C", "/repo", "worktree", "add", "-q", "--detach", wt, "HEAD"], check=True)
    try:
        a = subprocess.run(["git", "-C", wt, "apply", patch], stdout=subprocess.PIPE, stderr=subprocess.STDOUT, text=True)
        if a.returncode != 0:
            return "patch does not apply: " + a.stdout[-200:]
        env = dict(os.environ, CARGO_NET_OFFLINE="true", CARGO_TARGET_DIR="/tmp/vmut-target")
        r = subprocess.run(["cargo", "test", "--workspace", "--no-fail-fast", "--offline"], cwd=wt, env=env, stdout=subprocess.PIPE, stderr=subprocess.STDOUT, text=True)
        passed = sum(int(m.group(1)) for m in re.finditer(r"^test result: \w+\. (\d+) passed", r.stdout, re.M))
        failed = sum(int(m.group(1)) for m in re.finditer(r"^test result: \w+\. \d+ passed; (\d+) failed", r.stdout, re.M))
        if r.returncode != 0 or failed or "could not compile" in r.stdout:
            return "suite FAILS (%d passed, %d failed): %s" % (passed, failed, r.stdout[-300:])
        return "passes (%d passed 0 failed)" % passed
    finally:
        subprocess.run(["git", "-C", "/repo", "worktree", "remove", "--force", wt])
        shutil.rmtree(wt, ignore_errors=True)
        subprocess.run(["git", "-C", "/repo", "worktree", "prune"])


def main():
    args = sys.argv[1:]
    pid = args[0]
    src = "/tmp/wtb-%s/OUT" % pid
    also = []
    only = None
    tag = "b"
    i = 1
    while i < len(args):
        if args[i] == "--src":
            src = args[i + 1]
        elif args[i] == "--also":
            also = [x for x in args[i + 1].split(",") if x]
        elif args[i] == "--only":
            only = args[i + 1]
        elif args[i] == "--tag":
            tag = args[i + 1]
        i += 2
    for d in sorted(glob.glob(src + "/m*/")):
        name = os.path.basename(d.rstrip("/"))
        if only and name != only:
            continue
        patch = d + "patch.diff"
        if not os.path.exists(patch):
            continue
        suite = suite_passes(patch)
        checks = [pid] + [c for c in also if c != pid]
        r = subprocess.run([VERIF + "/selftest/run_mutant.sh", patch] + checks, stdout=subprocess.PIPE, stderr=subprocess.STDOUT, text=True, env=dict(os.environ, TIER="quick"))
        out = {}
        sigs = []
        for l in r.stdout.splitlines():
            ms = re.match(r"^  sig=(\S+) count=(\d+)[^:]*: (.*)", l)
            if ms:
                sigs.append({"sig": ms.group(1), "count": int(ms.group(2)), "msg": ms.group(3)[:300]})
            me = re.match(r"^== (\S+) exit=(\d+)", l)
            if me:
                out[me.group(1)] = {"tier": "quick", "exit": int(me.group(2)), "silent": me.group(2) == "0", "signatures": sigs[:6]}
                sigs = []
        print("##### %s %s  suite: %s" % (pid, name, suite))
        for c, v in out.items():
            print("    check %s (quick): exit %d  %s" % (c, v["exit"], ", ".join("%s x%d" % (s["sig"], s["count"]) for s in v["signatures"])))
        sys.stdout.flush()
        dst = os.path.join(VERIF, "seeded", "_benign", "%s-%s%s" % (pid, tag, name[1:]))
        os.makedirs(dst, exist_ok=True)
        for f in os.listdir(d):
            if f.endswith(".rs") or f in ("patch.diff", "README.md"):
                shutil.copy(d + f, os.path.join(dst, f))
        readme = open(d + "README.md").read() if os.path.exists(d + "README.md") else ""
        lines = [l for l in readme.splitlines() if l.strip() and not l.startswith("DEMO_CRATE")]
        json.dump({"property": pid, "origin": "written by an independent sub-agent asked for a change that leaves the property true (a refactor, or a behaviour change outside what the statement constrains)",
                   "summary": (lines[0] if lines else "")[:200], "existing suite with the change": suite, "checks": out,
                   "commands": ["selftest/run_mutant.sh patch.diff %s" % " ".join(checks)]}, open(os.path.join(dst, "meta.json"), "w"), indent=1)


if __name__ == "__main__":
    main()
